#!/venv/bin/python
"""Render mutants/matrix.json as the kill-matrix section (9.4) of DESIGN.md."""
import json, os, re
HERE = os.path.dirname(os.path.abspath(__file__))
rows = json.load(open(os.path.join(HERE, "mutants", "matrix.json")))
lines = ["### 9.4 Sensitivity: which checks catch which changes", "",
         "Produced by `./tools_mutants.py matrix --tests` (quick tier, VERIF_SEED=1, regression replays off;",
         "each patch applied to a scratch copy of `/repo/d42`, the repository's own suite run against the same copy).",
         "`suite` = does the unedited test suite still pass with the change. Reverts of the fix commits restore a",
         "genuine defect; `seeded/*` are the sub-agents' changes (A,B first round; C,D second; E,F third; G,H fourth; I,J fifth; K,L sixth; M,N seventh; O,P eighth); `own-*` are",
         "hand-written must-kill mutants.", "",
         "The four changes that no target check catches are the ones listed as deliberately uncovered in 9.3d (C02-E, C05-F,",
         "C08-F, C17-E); C04-G is obsolete (9.3e). Detection is measured at VERIF_SEED=1 only; after the generators were",
         "extended in rounds 4-7 a handful of earlier changes were caught at seeds 2 and 3 but not at seed 1 - each such class",
         "got a seed-independent (exhaustive) part, and `tools_matrix_patch.py` re-ran those rows.", "",
         "| change | suite | caught by (first violation key) | not caught by |", "|---|---|---|---|"]
n_kill = n_all = 0
for r in rows:
    name = r["patch"].replace("mutants/", "").replace("/patch.diff", "").replace(".diff", "")
    if not r.get("applied"):
        meta = os.path.join(HERE, os.path.dirname(r["patch"]), "meta.json")
        note = "PATCH DID NOT APPLY"
        if os.path.exists(meta) and json.load(open(meta)).get("obsolete_after"):
            note = "n/a - rewrites code that fix " + json.load(open(meta))["obsolete_after"] + " changed (see 9.3e)"
        lines.append(f"| {name} | - | {note} | |")
        continue
    caught, missed = [], []
    for pid, c in r["checks"].items():
        if c["detected"]:
            m = re.search(r"\] ([^:]+):", c.get("first", ""))
            caught.append(f"{pid} ({m.group(1) if m else '?'})")
        else:
            missed.append(pid)
    n_all += 1
    n_kill += 1 if caught else 0
    suite = {True: "passes", False: "fails", None: "-"}[r.get("tests_pass")]
    lines.append(f"| {name[:70]} | {suite} | {', '.join(caught) or '**none**'} | {', '.join(missed)} |")
lines += ["", f"{n_kill} of {n_all} changes are caught by at least one of their target checks."]
text = "\n".join(lines) + "\n"
p = os.path.join(HERE, "DESIGN.md")
s = open(p).read()
i = s.index("### 9.4 Sensitivity: which checks catch which changes")
open(p, "w").write(s[:i] + text)
print(f"{n_kill}/{n_all}")
