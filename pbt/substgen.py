"""Shared generators and helpers for the substitution properties C04, C05, C12."""
import math

from hypothesis import strategies as st

from . import rng, specs, values
from .codec import Zoo


def project(draw, v, p=2):
    """Partial projection of a value: drop dict keys at any depth (also inside lists)."""
    if isinstance(v, dict):
        out = {}
        for k, x in v.items():
            if draw(st.integers(0, p)) == 0:
                continue
            out[k] = project(draw, x, p)
        return out
    if isinstance(v, list):
        return [project(draw, x, p) for x in v]
    return v


def add_extra_keys(draw, v, n=1):
    """Add undeclared keys to dicts at drawn depths (interesting under relaxed dicts)."""
    ps = [p for p in values.paths(v) if isinstance(values.get_at(v, p), dict)]
    if not ps:
        return v
    for _ in range(n):
        p = draw(st.sampled_from(ps))
        d = dict(values.get_at(v, p))
        d[draw(st.sampled_from(["extra", "zz", 99, "b2"]))] = draw(values.junk_scalar)
        v = values.replace_at(v, p, d)
    return v


def put_ellipsis(draw, v):
    ps = list(values.paths(v))
    dicts = [p for p in ps if isinstance(values.get_at(v, p), dict)]
    if dicts and draw(st.integers(0, 2)) == 0:
        # `...` as a *key* (with a plain value, or as the `...: ...` entry of schema notation)
        p = draw(st.sampled_from(dicts))
        d = dict(values.get_at(v, p))
        d[...] = draw(st.one_of(values.junk_scalar, st.just(...)))
        return values.replace_at(v, p, d)
    lists = [p for p in ps if isinstance(values.get_at(v, p), list)]
    if lists and draw(st.integers(0, 2)) == 0:
        # a list written open-ended (`[a, b, c, ...]` / `[..., a, b, c]`), possibly with more members than its schema allows
        p = draw(st.sampled_from(lists))
        x = list(values.get_at(v, p))
        x = x + x[:draw(st.integers(0, 3))] + ([draw(values.junk_scalar)] if draw(st.booleans()) else [])
        x = x + [...] if draw(st.booleans()) else [...] + x
        return values.replace_at(v, p, x)
    p = draw(st.sampled_from(ps))
    return values.replace_at(v, p, ...)


def has_ellipsis(v):
    if v is Ellipsis or (isinstance(v, Zoo) and v.name == "ellipsis"):
        return True
    if isinstance(v, (list, tuple)):
        return any(has_ellipsis(x) for x in v)
    if isinstance(v, dict):
        return any(has_ellipsis(k) or has_ellipsis(x) for k, x in v.items())
    return False


def has_nan(v):
    if isinstance(v, float):
        return math.isnan(v)
    if isinstance(v, Zoo):
        return v.name in ("nan", "decimal_nan", "dict_twin_nan_keys")
    if isinstance(v, (list, tuple)):
        return any(has_nan(x) for x in v)
    if isinstance(v, dict):
        return any(has_nan(k) or has_nan(x) for k, x in v.items())
    return False


PLAIN_KINDS = ["complete", "complete", "partial", "partial", "partial", "near", "perturb", "extra-keys",
               "dict-subclass", "tuple"]


def tuple_somewhere(draw, v):
    """one list of the value (or a scalar pair next to it) written as a tuple: not a kind of value any schema
    accepts or from_native converts"""
    ps = [p for p in values.paths(v) if isinstance(values.get_at(v, p), list)]
    if not ps or draw(st.integers(0, 3)) == 0:
        ps2 = list(values.paths(v))
        return values.replace_at(v, draw(st.sampled_from(ps2)), draw(st.sampled_from([(1, 2), (), ("a", "b"), (None,)])))
    p = draw(st.sampled_from(ps))
    return values.replace_at(v, p, tuple(values.get_at(v, p)))


def realize(case):
    """live value of a case; case["alias"] = [p, q] puts the very object found at path p at path q as well
    (one object at two positions of the value)"""
    v = values.realize(case["value"])
    al = case.get("alias")
    if al:
        p, q = [tuple(tuple(step) for step in path) for path in al]
        v = _set_at(v, q, values.get_at(v, p))
    return v


def _set_at(v, path, new):
    """in place (identity of everything else, and of `new`, is kept)"""
    if not path:
        return new
    cur = v
    for kind, k in path[:-1]:
        cur = cur[k]
    cur[path[-1][1]] = new
    return v


@st.composite
def lookalike_union(draw):
    """(spec, full value): a union of containers of one kind that differ in leaf types / length, nested inside a dict
    or a typed list - a sparse value fits several alternatives syntactically but only one (or none) semantically"""
    leaf = st.sampled_from([{"t": "int"}, {"t": "str"}, {"t": "float"}, {"t": "none"}, {"t": "bool"}, {"t": "int", "min": 0, "order": ["min"]},
                            {"t": "str", "len": ["max", 3], "order": ["len"]}])
    keys = draw(st.lists(st.sampled_from(["kind", "x", "y", "id", "name"]), min_size=2, max_size=3, unique=True))
    kind = draw(st.sampled_from(["dicts", "dicts", "lists"]))
    alts = []
    for _ in range(draw(st.integers(2, 3))):
        if kind == "dicts":
            alts.append({"t": "dict", "entries": [{"key": k, "opt": draw(st.integers(0, 4)) == 0, "spec": draw(leaf)} for k in keys],
                         "relaxed": draw(st.integers(0, 4)) == 0})
        else:
            n = draw(st.integers(1, 3))
            alts.append({"t": "list", "form": draw(st.sampled_from(["exact", "exact", "head"])), "elems": [draw(leaf) for _ in range(n)]})
    union = {"t": "any", "alts": alts}
    wrap = draw(st.sampled_from(["dict", "list", "dict-in-list", "bare"]))
    if wrap == "dict":
        spec = {"t": "dict", "entries": [{"key": "payload", "opt": False, "spec": union}, {"key": "tag", "opt": True, "spec": {"t": "str"}}],
                "relaxed": False}
    elif wrap == "list":
        spec = {"t": "list", "form": "typed", "elem": union}
    elif wrap == "dict-in-list":
        spec = {"t": "list", "form": "typed", "elem": {"t": "dict", "entries": [{"key": "p", "opt": False, "spec": union}], "relaxed": False}}
    else:
        spec = union
    return spec, draw(values.conforming(spec))


@st.composite
def lookalike_case(draw):
    try:
        spec, full = draw(lookalike_union())
    except values.Unsat:
        return None
    v = project(draw, full, p=draw(st.sampled_from([1, 2, 4])))
    return {"spec": spec, "value": v, "full": full, "kind": "sparse-into-lookalike-union", "rng": draw(rng.script_strategy(30)),
            "share": False}


@st.composite
def window_case(draw):
    """`[..., a, b, ...]` whose first declared element is a dict; the value holds, before the real window, a
    decoy: a (partial) dict that fits the first element followed by something that does not fit the second"""
    member = specs.spec_strategy(depth=0, sat=True, patterns=False)
    keys = draw(st.lists(st.sampled_from(["id", "name", "a", "b"]), min_size=2, max_size=3, unique=True))
    first = {"t": "dict", "entries": [{"key": k, "opt": draw(st.integers(0, 3)) == 0, "spec": draw(member)} for k in keys],
             "relaxed": draw(st.integers(0, 3)) == 0}
    rest = draw(st.lists(member, min_size=1, max_size=2))
    spec = {"t": "list", "form": "contains", "elems": [first] + rest}
    try:
        body = [draw(values.conforming(e)) for e in spec["elems"]]
        decoy_first = draw(values.conforming(first))
    except values.Unsat:
        return None
    decoy = [project(draw, decoy_first, p=1)] + body[1:-1] + [draw(st.sampled_from([[], {"zz": 1}, "decoy", None]))]
    shape = draw(st.sampled_from(["decoy-first", "decoy-first", "decoy-last", "both"]))
    pad = [draw(values.junk_scalar) for _ in range(draw(st.integers(0, 2)))]
    if shape == "decoy-first":
        full = pad + decoy + body
    elif shape == "decoy-last":
        full = pad + body + decoy[:-1]          # the value ends inside a window that cannot be completed
    else:
        full = decoy + body + decoy[:-1]
    v = list(full)
    if draw(st.booleans()):
        i = full.index(body[0]) if body[0] in full else None
        if i is not None:
            v[i] = project(draw, body[0], p=3)
    return {"spec": spec, "value": v, "full": full, "kind": "decoy-window", "rng": draw(rng.script_strategy(30)),
            "share": False}


@st.composite
def aliased_case(draw):
    """two positions with different schemas that both take one and the same (partial) container object"""
    from .props.c15 import _variant
    opts = dict(alias=False, patterns=False, custom=False, derived=False)
    a = draw(st.one_of(specs.dict_spec(1, True, opts), specs.dict_spec(1, True, opts), specs.list_spec(1, True, opts)))
    b = _variant(draw, a)
    if b is None or any(n["t"] == "alias" for n, _ in specs.walk(b)):
        b = a
    try:
        draw(values.conforming(b))      # (a single-step variant of a satisfiable spec need not be satisfiable)
    except values.Unsat:
        b = a
    if draw(st.booleans()):
        a, b = b, a
    try:
        x = draw(values.conforming(a))
    except values.Unsat:
        return None
    x = project(draw, x, p=draw(st.sampled_from([1, 2, 6])))
    wrap = draw(st.sampled_from(["dict", "list", "typed+dict"]))
    if wrap == "dict":
        spec = {"t": "dict", "entries": [{"key": "first", "opt": False, "spec": a}, {"key": "second", "opt": draw(st.booleans()), "spec": b}],
                "relaxed": False}
        v, p, q = {"first": x, "second": x}, [["k", "first"]], [["k", "second"]]
    elif wrap == "list":
        spec = {"t": "list", "form": "exact", "elems": [a, b]}
        v, p, q = [x, x], [["i", 0]], [["i", 1]]
    else:
        spec = {"t": "dict", "entries": [{"key": "items", "opt": False, "spec": {"t": "list", "form": "typed", "elem": a}},
                                        {"key": "main", "opt": False, "spec": b}], "relaxed": draw(st.booleans())}
        v, p, q = {"items": [x], "main": x}, [["k", "items"], ["i", 0]], [["k", "main"]]
    return {"spec": spec, "value": v, "full": None, "kind": "aliased-object", "rng": draw(rng.script_strategy(30)),
            "share": False, "alias": [p, q]}

HOSTILE_KINDS = PLAIN_KINDS + ["zoo", "zoo", "ellipsis", "junk"]


@st.composite
def subst_case(draw, kinds=PLAIN_KINDS, sat=True, depth_choices=(0, 1, 1, 2, 2, 3), dict_bias=0):
    depth = draw(st.sampled_from(list(depth_choices)))
    any_of_relaxed = False
    special = draw(st.integers(0, 11))
    if special < 3:
        c = draw([window_case, aliased_case, lookalike_case][special]())
        if c is not None:
            return c
    if dict_bias and draw(st.integers(0, 9)) < dict_bias:
        # a declared dict (possibly inside a typed list): the shape partial substitution is about
        opts = dict(alias=True, patterns=True, custom=False, derived=False)
        spec = draw(specs.dict_spec(max(depth, 1), True, opts))
        if "entries" in spec and len(spec["entries"]) < 2:
            spec["entries"].append({"key": "extra-member", "opt": draw(st.booleans()),
                                    "spec": draw(specs.spec_strategy(depth=0, sat=True))})
        if draw(st.integers(0, 3)) == 0:
            spec = {"t": "list", "form": "typed", "elem": spec}
    elif draw(st.integers(0, 7)) == 0:
        # an any-union whose alternatives accept the value but cannot take it: relaxed dict + extra key,
        # untyped dict / list + a member that cannot be converted
        member = draw(specs.spec_strategy(depth=0, sat=True))
        alts = draw(st.lists(st.sampled_from([
            {"t": "dict", "entries": [{"key": "a", "opt": False, "spec": member}], "relaxed": True},
            {"t": "dict", "entries": [{"key": "a", "opt": False, "spec": member},
                                      {"key": "name", "opt": False, "spec": {"t": "str"}}], "relaxed": True},
            {"t": "none"},
            {"t": "dict"}, {"t": "list", "form": "untyped"}, {"t": "list", "form": "ellipsis", "elems": []},
            {"t": "dict", "entries": [{"key": "a", "opt": True, "spec": member}], "relaxed": True, "relaxed_at": 0},
        ]), min_size=1, max_size=3))
        spec = {"t": "any", "alts": alts}
        if draw(st.booleans()):
            spec = {"t": "dict", "entries": [{"key": "payload", "opt": False, "spec": spec}], "relaxed": False}
        any_of_relaxed = True
    else:
        spec = draw(specs.spec_strategy(depth=depth,
                                        sat=sat if isinstance(sat, bool) else draw(st.booleans())))
    share = draw(st.integers(0, 3)) == 0
    if share:
        spec = specs.with_repeats(draw, spec)
    kind = draw(st.sampled_from(kinds))
    if any_of_relaxed and draw(st.booleans()):
        kind = "extra-keys-sparse"      # an unknown key added and declared keys left out
    full = None
    try:
        full = draw(values.conforming(spec))
        if kind == "complete":
            v = full
        elif kind == "partial":
            v = project(draw, full)
        elif kind == "near":
            v, _ = draw(values.near(spec))
        elif kind == "perturb":
            v, _ = draw(values.perturb(full))
        elif kind == "extra-keys":
            v = add_extra_keys(draw, project(draw, full, p=6), draw(st.integers(1, 2)))
        elif kind == "dict-subclass":
            # a partial value whose dicts are instances of plain dict subclasses (defaultdict, Counter-like...)
            v = values.wrap_dicts(draw, project(draw, full, p=2))
        elif kind == "extra-keys-sparse":
            v = add_extra_keys(draw, project(draw, full, p=1), 1)
        elif kind == "tuple":
            v = tuple_somewhere(draw, project(draw, full, p=4))
        elif kind == "zoo":
            v, _ = draw(values.inject(full))
        elif kind == "ellipsis":
            v = put_ellipsis(draw, project(draw, full, p=6))
        else:
            v = draw(st.one_of(values.junk, values.zoo))
    except values.Unsat:
        kind = "unsat->junk"
        v = draw(values.junk)
    return {"spec": spec, "value": v, "full": full, "kind": kind, "rng": draw(rng.script_strategy(30)),
            "share": share}


def carries(v, w, float_tol=0.0):
    """Does w carry the substituted data v?  scalars equal (floats within the documented
    tolerance), lists same length and pointwise, dicts on every key of v.
    Returns None when it does, else a description of the first difference."""
    if isinstance(v, dict):
        if not isinstance(w, dict):
            return f"{w!r} is not a dict"
        for k, x in v.items():
            if k not in w:
                return f"key {k!r} missing in {w!r}"
            d = carries(x, w[k], float_tol)
            if d:
                return f"[{k!r}]: {d}"
        return None
    if isinstance(v, list):
        if not isinstance(w, list):
            return f"{w!r} is not a list"
        if len(v) != len(w):
            return f"length {len(w)} != {len(v)}"
        for i, (x, y) in enumerate(zip(v, w)):
            d = carries(x, y, float_tol)
            if d:
                return f"[{i}]: {d}"
        return None
    if isinstance(v, float) and isinstance(w, float):
        if v == w or (math.isnan(v) and math.isnan(w)):
            return None
        if math.isinf(v) or math.isinf(w):
            return f"{w!r} != {v!r}"
        # documented tolerance: isclose default, or rounding at the coarsest precision declared
        # anywhere in the schema (float_tol = 1.01 * 10**-p, 0 when no precision is declared)
        if abs(v - w) <= 1e-9 * max(abs(v), abs(w)) or abs(v - w) <= float_tol:
            return None
        return f"{w!r} != {v!r}"
    if isinstance(v, bool) or isinstance(w, bool):
        if isinstance(v, int) and isinstance(w, int) and int(v) == int(w):
            return None
        return f"{w!r} != {v!r}"
    if type(v) in (int, float) and type(w) in (int, float):
        # "scalars equal": an int and a float are the same number or they are not (2**53 + 1 has no float)
        return None if v == w else f"{w!r} != {v!r}"
    if type(v) is not type(w) and not (isinstance(w, type(v))):
        return f"{w!r} ({type(w).__name__}) != {v!r}"
    return None if v == w else f"{w!r} != {v!r}"


def float_tolerance(spec):
    """1.01 * 10**-p for the coarsest precision p declared anywhere in the spec tree, else 0."""
    ps = [s["precision"] for s, _ in specs.walk(spec) if s["t"] == "float" and "precision" in s]
    return 1.01 * 10.0 ** -min(ps) if ps else 0.0


@st.composite
def subst_case_with_probes(draw, kinds=PLAIN_KINDS, dict_bias=0):
    """subst_case plus third values w: perturbations of v and of the full conforming value,
    spec-aware near-misses of the original spec (tolerance nudges, +-1 lengths, extra / dropped
    keys, out-of-alphabet characters, out-of-bound numbers)."""
    c = draw(subst_case(kinds=kinds, sat=True, dict_bias=dict_bias))
    v = c["value"]
    probes = [v]            # the substituted value itself (a partial one is accepted by neither side)
    # v with a scalar leaf replaced by the equal-valued scalar of another type (2 -> 2.0, True -> 1, b"" -> bytearray)
    leaves = [p for p in values.paths(v) if type(values.get_at(v, p)) in (int, float, bool, bytes)]
    for p in leaves[:3]:
        x = values.get_at(v, p)
        try:
            tw = {int: float, float: int, bool: int}.get(type(x), lambda b: Zoo("bytearray"))(x)
        except (OverflowError, ValueError):
            continue
        if isinstance(tw, Zoo) or tw == x:
            probes.append(values.replace_at(v, p, tw))
    for _ in range(3):
        probes.append(draw(values.perturb(v))[0])
    if c["full"] is not None:
        probes.append(c["full"])
        for _ in range(2):
            probes.append(draw(values.perturb(c["full"]))[0])
        try:
            probes.append(draw(values.near(c["spec"]))[0])
            probes.append(draw(values.conforming(c["spec"])))
        except values.Unsat:
            pass
    # float nudges inside / just outside the tolerance at every float leaf of v
    fl = [p for p in values.paths(v) if isinstance(values.get_at(v, p), float)]
    if fl:
        p = draw(st.sampled_from(fl))
        x = values.get_at(v, p)
        if math.isfinite(x):
            for y in (x * (1 + 1e-10), x * (1 - 1e-10), x + 0.04, x - 0.04, math.nextafter(x, math.inf)):
                probes.append(values.replace_at(v, p, y))
    # growth probes: every list of v with one more (ill-typed or copied) item, every dict with one more key
    grow = [p for p in values.paths(v) if isinstance(values.get_at(v, p), (list, dict))]
    for p in grow[:4]:
        x = values.get_at(v, p)
        if isinstance(x, list):
            probes.append(values.replace_at(v, p, x + [draw(values.junk_scalar)]))
            if x:
                probes.append(values.replace_at(v, p, x + [x[-1]]))
        else:
            y = dict(x)
            y[draw(st.sampled_from(["grown", 77]))] = draw(values.junk_scalar)
            probes.append(values.replace_at(v, p, y))
    c["probes"] = probes
    return c
