"""C05 - substitution only narrows a schema, never widens it.

case = subst_case_with_probes (same generator as C04)
Oracle: for every third value w (fake(S % v), probes): validate(S % v, w) ok  =>  validate(S, w) ok.
"""
from .. import canon, rng, specs, substgen, values
from ..core import HarnessError, Violation

ID = "C05"
LEVEL = "exploration"
RULE = ("same (schema, plain value) generator as C04 (incl. decoy windows and one container object at two positions); third values w = fake(S % v) under two RNG "
        "scripts, the full conforming value, generic single-step perturbations of v and of the full "
        "value, spec-aware near-misses of S (min-1, max+1, len+-1, out-of-alphabet, extra/dropped "
        "keys) and float nudges inside / just outside the tolerance. Oracle: R accepts w implies S "
        "accepts w. distinct = canonical JSON of (spec, value); non-trivial = the case has a w accepted by R "
        "and different from v, or a w rejected by R but accepted by S (shows the probes discriminate)")
ASSUMPTIONS = ["acceptance by R is sampled through the generated probes, not enumerated"]
BUDGET = {"quick": (1200, 4), "thorough": (20000, 16)}


def strategy(tier):
    return substgen.subst_case_with_probes(
        kinds=["complete", "partial", "partial", "partial", "partial", "partial", "near", "extra-keys"],
        dict_bias=6)


def exhaustive(tier):
    """unions over relaxed dicts (and undeclared containers) x sparse values that carry an undeclared key and leave
    declared keys out: every alternative accepts-but-cannot-take such a value; whatever the union then does, the result
    must not accept more than the union did"""
    import itertools
    m_int, m_str = {"t": "int"}, {"t": "str"}
    user = {"t": "dict", "entries": [{"key": "id", "opt": False, "spec": m_int}, {"key": "name", "opt": False, "spec": m_str}], "relaxed": True}
    user_first = dict(user, relaxed_at=0)
    opt = {"t": "dict", "entries": [{"key": "id", "opt": True, "spec": m_int}], "relaxed": True}
    strict = {"t": "dict", "entries": [{"key": "id", "opt": False, "spec": m_int}, {"key": "name", "opt": True, "spec": m_str}], "relaxed": False}
    pools = [[user], [user, {"t": "none"}], [user, opt], [user_first, strict], [strict, user], [opt, {"t": "dict"}], [user, {"t": "list", "form": "untyped"}],
             [{"t": "alias", "name": "User", "spec": user}], [{"t": "any", "alts": [user, strict]}, {"t": "none"}]]
    vals = [{"id": 7, "role": "admin"}, {"role": "admin"}, {"id": 7}, {"name": "n", "zz": None}, {"id": 7, "name": "n", "zz": 1}, {},
            {"id": 7, "name": "n"}, {"id": "7", "role": 1}, {"zz": {"id": 7}}]
    for alts, v in itertools.product(pools, vals):
        u = {"t": "any", "alts": alts}
        probes = [v, dict(v, name="n"), dict(v, id=7, name="n"), dict(v, more=1), {k: x for k, x in v.items() if k != "id"}, {}, None]
        for spec, val, pr in ((u, v, probes),
                              ({"t": "dict", "entries": [{"key": "payload", "opt": False, "spec": u}], "relaxed": False},
                               {"payload": v}, [{"payload": p} for p in probes]),
                              ({"t": "list", "form": "typed", "elem": u}, [v], [[p] for p in probes] + [[v, v]])):
            yield {"spec": spec, "value": val, "full": None, "kind": "sparse-into-union", "rng": [0.5, 0.0, 1.0], "share": False, "probes": pr}


def _r(x):
    try:
        return repr(x)
    except Exception as e:  # noqa
        return f"<unprintable {type(x).__name__}: {e!r}>"


def check(case, ctx):
    from d42 import fake, substitute, validate
    from d42.declaration import DeclarationError
    from d42.substitution.errors import SubstitutionError
    spec = case["spec"]
    if substgen.has_ellipsis(case["value"]) or substgen.has_nan(case["value"]) or \
            values.has_zoo(case["value"]):
        ctx.label("skip:not-plain")
        return
    try:
        S = specs.build(spec, share={} if case.get("share") else None)
    except DeclarationError as e:
        ctx.skip_undeclarable(None, e)
        return
    v = substgen.realize(case)
    try:
        R = substitute(S, v)
    except SubstitutionError:
        ctx.label("refused")
        return
    except Exception:  # noqa  (C12)
        ctx.label("other-exception(C12)")
        return
    ctx.label("substituted")
    ws = [("probe", values.realize(p), p) for p in case["probes"]]
    for script in (case["rng"], list(reversed(case["rng"])) + [1.0, 0.0]):
        try:
            with rng.scripted(script):
                ws.append(("generated", fake(R), None))
        except Exception:  # noqa  (C01 / C12)
            ctx.label("fake-raised")
    n_acc = n_disc = 0
    for how, w, recipe in ws:
        try:
            r_ok = not validate(R, w).has_errors()
            s_ok = not validate(S, w).has_errors()
        except Exception:  # noqa  (C08)
            ctx.label("validate-raised")
            continue
        try:
            if (R == w) is True and (S == w) is not True and not s_ok:
                r_ok = True         # (the == operator is one more way of asking; its answer counts as acceptance)
        except Exception:  # noqa
            pass
        if r_ok and not s_ok:
            raise Violation("substitution-widened",
                            f"S = {_r(S)}; R = S % {v!r} = {_r(R)} accepts {w!r} ({how}) which S rejects: "
                            f"{validate(S, w).get_errors()!r}")
        differs = substgen.carries(w, v, 0.0) is not None or substgen.carries(v, w, 0.0) is not None
        if r_ok and differs:
            n_acc += 1
        if s_ok and not r_ok:
            n_disc += 1
    if n_acc:
        ctx.label("has-accepted-different-w")
    if n_disc:
        ctx.label("has-discriminating-w")
    if n_acc or n_disc:
        ctx.mark_nontrivial({"spec": spec, "value": case["value"]},
                            sample_class=(bool(n_acc), bool(n_disc), spec["t"]))
    # does R keep a non-pinned part (partial dict, relaxed dict, optional key, float tolerance)?
    try:
        rspec = canon.spec_of(R)
        free = any((s["t"] == "dict" and (s.get("relaxed") or any(e["opt"] for e in s.get("entries", []))))
                   or (s["t"] not in ("dict", "list", "any", "alias", "none") and "value" not in s)
                   or s["t"] == "float"
                   for s, _ in specs.walk(rspec))
    except ValueError:
        free = True
    ctx.label("result-keeps-freedom" if free else "result-fully-pinned")


def require(ctx, tier):
    L = ctx.labels
    done = L.get("substituted", 0)
    if done == 0 or L.get("result-keeps-freedom", 0) < 0.15 * done:
        raise HarnessError(f"C05: too few results with a non-pinned part: {L.get('result-keeps-freedom')} of {done}")
    for lab in ("has-accepted-different-w", "has-discriminating-w"):
        if not L.get(lab):
            raise HarnessError(f"C05 generator never produced class {lab!r}")


MANIFEST = {
    "text": "Generated-input search: for thousands of successful substitutions, every generated or "
            "perturbed third value accepted by the result must be accepted by the original "
            "(library-vs-library implication). Finds dropped bounds/lengths/alphabets/relaxed markers "
            "and optionality changes that widen the schema on the explored values.",
    "design_ref": "DESIGN.md section 3, C05",
    "note": "trusts d42.validate for both sides (C02 checks it against the model); third values are sampled",
    "technique": "property-based testing (Hypothesis), metamorphic implication oracle between S % v and S",
}
