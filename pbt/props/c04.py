"""C04 - substitution pins the given value into the schema.

case = subst_case_with_probes: {"spec", "value" (plain: no `...`, no NaN), "full", "kind", "rng",
        "probes": [third values w]}
"""
from .. import canon, rng, specs, substgen, values
from ..core import HarnessError, Violation

ID = "C04"
LEVEL = "exploration"
RULE = ("Hypothesis draws a satisfiable SchemaSpec (depth<=3) and a plain value derived from an "
        "independently built conforming value: complete, partial projection (dict keys dropped at any "
        "depth, also inside typed lists and any-alternatives), near-miss, perturbed, with extra keys, with one list written as a tuple; one case in six is a `[..., a, b, ...]` window "
        "whose value holds a decoy (a partial dict that fits a followed by something else) before or after the real window, or "
        "a value in which one (partial) container object stands at two positions whose schemas differ; "
        "cases where S % v raises SubstitutionError are counted and skipped. For the result R: (a) v "
        "conforms to S implies R accepts v; (b) fake(R) (two RNG scripts) returns a value R accepts; "
        "(c) every w among fake(R) and the generated probes that R accepts carries v's data "
        "(scalars equal within the documented float tolerance, lists pointwise, dicts on every key "
        "of v); (d) dict keys not mentioned in v keep a canon-identical member schema and the same "
        "optional flag. distinct = canonical JSON of (spec, value); non-trivial = v is a partial dict "
        "at depth>=1, or the target has a window list form, or an any with >=2 alternatives")
ASSUMPTIONS = ["an instance of a plain dict subclass (defaultdict, OrderedDict, __missing__ dict) stands for its content",
               "float tolerance: isclose default, or 1.01*10**-p for the coarsest precision declared in R",
               "the open C01 finding (empty alphabet cannot be generated from) is not re-reported here"]
BUDGET = {"quick": (1200, 4), "thorough": (20000, 16)}


def strategy(tier):
    return substgen.subst_case_with_probes(dict_bias=4)


def exhaustive(tier):
    """small families no random draw is likely to hit: equal-valued numbers of different types side by side under
    targets that take both, and whole numbers no float can hold at float positions"""
    num = {"t": "any", "alts": [{"t": "int"}, {"t": "float"}]}
    numb = {"t": "any", "alts": [{"t": "bool"}, {"t": "int"}, {"t": "float"}, {"t": "none"}]}
    targets = [{"t": "list", "form": "typed", "elem": num}, {"t": "list", "form": "typed", "elem": numb},
               {"t": "list", "form": "typed", "elem": {"t": "any"}}, {"t": "list", "form": "untyped"},
               {"t": "list", "form": "head", "elems": [num]}, {"t": "list", "form": "contains", "elems": [num, num]},
               {"t": "dict"}, {"t": "dict", "entries": [{"key": "a", "opt": False, "spec": num}, {"key": "b", "opt": False, "spec": numb}],
                               "relaxed": True}]
    lists = [[1, 1.0], [1.0, 1], [0, 0.0, False], [True, 1, 1.0], [2.0, 2, 2.0], [0.0, 0], [-1, -1.0, 7], [1, 2, 1.0, 2.0, 1],
             [2 ** 53, float(2 ** 53)], [[1], [1.0]]]
    for t in targets:
        for vals in lists:
            v = vals if t["t"] == "list" else dict(zip("abcde", vals))
            yield {"spec": t, "value": v, "full": None, "kind": "equal-valued-twins", "rng": [0.5, 0.0], "share": False,
                   "probes": [v, list(reversed(vals)) if t["t"] == "list" else dict(zip("abcde", reversed(vals)))]}
    # keys that look like paths (a dotted key is a key, not a path into the value)
    dotted = [{"t": "dict"}, {"t": "dict", "entries": [], "relaxed": True}, {"t": "any"},
              {"t": "dict", "entries": [{"key": "a.b", "opt": False, "spec": {"t": "int"}},
                                        {"key": "a", "opt": True, "spec": {"t": "dict", "entries": [{"key": "b", "opt": False, "spec": {"t": "int"}}], "relaxed": False}}],
               "relaxed": False},
              {"t": "dict", "entries": [{"key": "user.name", "opt": False, "spec": {"t": "str"}}], "relaxed": True}]
    for t in dotted:
        for v in ({"user.name": "bob"}, {"a.b": 1}, {"a.b": 1, "a": {"b": 2}}, {"x.y.z": None, "x": 1}, {"user.name": "bob", "user": {"name": "al"}}):
            yield {"spec": t, "value": v, "full": None, "kind": "dotted-keys", "rng": [0.5], "share": False, "probes": [v]}
            yield {"spec": {"t": "list", "form": "typed", "elem": t}, "value": [v], "full": None, "kind": "dotted-keys", "rng": [0.5], "share": False,
                   "probes": [[v]]}
    fl = [{"t": "float"}, {"t": "float", "min": 0.0, "order": ["min"]}, {"t": "any", "alts": [{"t": "float"}, {"t": "none"}]}]
    for f in fl:
        for n in (0, 10, -3, 2 ** 53 + 1, 10 ** 22 + 1, -(2 ** 53) - 1, 2 ** 64 + 1, 10 ** 400):
            for spec, v in ((f, n), ({"t": "list", "form": "typed", "elem": f}, [n, 1.5]),
                            ({"t": "dict", "entries": [{"key": "r", "opt": False, "spec": f}], "relaxed": False}, {"r": n})):
                yield {"spec": spec, "value": v, "full": None, "kind": "whole-number-at-float-position", "rng": [0.5], "share": False,
                       "probes": [v]}


def _any_refuses_its_accepting_alternative(Sn, v):
    """Is there, along v, an any(...) node such that every alternative that *validates* the sub-value
    refuses to take it with 'Unknown key' (a relaxed dict alternative given an undeclared key)?"""
    from d42 import substitute, validate
    from d42.declaration.types import AnySchema, DictSchema, GenericTypeAliasSchema, ListSchema
    from d42.substitution.errors import SubstitutionError
    from niltype import Nil
    if isinstance(Sn, GenericTypeAliasSchema):
        return _any_refuses_its_accepting_alternative(Sn.props.type, v)
    if isinstance(Sn, AnySchema) and Sn.props.types is not Nil:
        ok = [a for a in Sn.props.types if not validate(a, v).has_errors()]
        if ok:
            refused = 0
            for a in ok:
                try:
                    substitute(a, v)
                except SubstitutionError as e:
                    if "Unknown key" in str(e):
                        refused += 1
                except Exception:  # noqa
                    pass
            if refused == len(ok):
                return True
        return any(_any_refuses_its_accepting_alternative(a, v) for a in Sn.props.types)
    if isinstance(Sn, DictSchema) and isinstance(v, dict) and Sn.props.keys is not Nil:
        return any(_any_refuses_its_accepting_alternative(sch, v[k])
                   for k, (sch, _) in Sn.props.keys.items() if k is not Ellipsis and k in v)
    if isinstance(Sn, ListSchema) and isinstance(v, list):
        if Sn.props.type is not Nil:
            return any(_any_refuses_its_accepting_alternative(Sn.props.type, x) for x in v)
        el = Sn.props.elements
        if el is not Nil and not any(x is Ellipsis for x in el) and len(el) == len(v):
            return any(_any_refuses_its_accepting_alternative(e, x) for e, x in zip(el, v))
        if el is not Nil and len(el) > 2 and el[0] is Ellipsis and el[-1] is Ellipsis:
            # the same thing one level up: `[..., a, b, ...] % value` - every position at which the value matches a, b
            # refuses to take it with 'Unknown key', so the window lands on a position the value merely fits
            inner = list(el[1:-1])
            matching = [i for i in range(len(v) - len(inner) + 1)
                        if all(not validate(e, v[i + j]).has_errors() for j, e in enumerate(inner))]
            refused = 0
            for i in matching:
                for j, e in enumerate(inner):
                    try:
                        substitute(e, v[i + j])
                    except SubstitutionError as err:
                        if "Unknown key" in str(err):
                            refused += 1
                            break
                    except Exception:  # noqa
                        pass
            if matching and refused == len(matching):
                return True
            return any(_any_refuses_its_accepting_alternative(e, v[i + j])
                       for i in matching for j, e in enumerate(inner))
    return False


def classify(case, v):
    """Known finding: `any(...) % value` keeps only the alternatives the value can be substituted into;
    a relaxed dict alternative refuses every undeclared key ('Unknown key'), so the one alternative that
    actually accepts the value can be dropped and the result then rejects the value it was given.  The window search of
    `[..., a, b, ...] % value` has the same root: the position at which the value matches can be refused for an unknown key
    and a position the value only fits as a partial value is taken instead."""
    if v.key == "result-rejects-substituted-value":
        try:
            S = specs.build(case["spec"], share={} if case.get("share") else None)
            if _any_refuses_its_accepting_alternative(S, values.realize(case["value"])):
                return "any-drops-the-accepting-relaxed-alternative"
        except Exception:  # noqa
            pass
    return v.key


KNOWN = {
    "any-drops-the-accepting-relaxed-alternative": {
        "spec": {"t": "any", "alts": [
            {"t": "dict", "entries": [{"key": "a", "opt": False, "spec": {"t": "int"}},
                                      {"key": "name", "opt": False, "spec": {"t": "str"}}], "relaxed": True},
            {"t": "dict", "entries": [{"key": "a", "opt": True, "spec": {"t": "int"}}], "relaxed": True}]},
        "value": {"name": ""}, "full": {"a": 0, "name": ""}, "kind": "extra-keys-sparse", "rng": [], "probes": [],
    },
}


def _r(x):
    try:
        return repr(x)
    except Exception as e:  # noqa
        return f"<unprintable {type(x).__name__}: {e!r}>"


def _unwrap(v):
    from ..codec import Wrapped
    if isinstance(v, Wrapped):
        return _unwrap(v.value)
    if isinstance(v, list):
        return [_unwrap(x) for x in v]
    if isinstance(v, dict):
        return {k: _unwrap(x) for k, x in v.items()}
    return v


def _plain_copy(v):
    if isinstance(v, dict):
        return {k: _plain_copy(x) for k, x in v.items()}
    if isinstance(v, list):
        return [_plain_copy(x) for x in v]
    return v


def _unspecified(Sn, Rn, v, where="_"):
    """(d): keys not mentioned in v keep their schema and optionality."""
    from d42.declaration.types import DictSchema, GenericTypeAliasSchema, ListSchema
    from niltype import Nil
    if isinstance(Sn, GenericTypeAliasSchema) and isinstance(Rn, GenericTypeAliasSchema):
        return _unspecified(Sn.props.type, Rn.props.type, v, where)
    if isinstance(Sn, DictSchema) and isinstance(Rn, DictSchema) and isinstance(v, dict):
        sk, rk = Sn.props.keys, Rn.props.keys
        if sk is Nil or rk is Nil or all(k is Ellipsis for k in sk):
            return
        for k, (sch, opt) in sk.items():
            if k is Ellipsis:
                if Ellipsis not in rk:
                    raise Violation("relaxed-marker-lost", f"at {where}: {_r(Sn)} % ... lost `...: ...`")
                continue
            if k not in rk:
                raise Violation("key-dropped", f"at {where}: key {k!r} of {_r(Sn)} is missing in {_r(Rn)}")
            rsch, ropt = rk[k]
            if k in v:
                if ropt:
                    raise Violation("substituted-key-stays-optional", f"at {where}[{k!r}] in {_r(Rn)}")
                _unspecified(sch, rsch, v[k], f"{where}[{k!r}]")
            else:
                if canon.canon(sch) != canon.canon(rsch) or bool(opt) != bool(ropt):
                    raise Violation("unspecified-key-changed",
                                    f"at {where}[{k!r}]: {_r(sch)} (optional={opt}) became {_r(rsch)} "
                                    f"(optional={ropt})")
        return
    if isinstance(Sn, ListSchema) and isinstance(Rn, ListSchema) and isinstance(v, list):
        rel = Rn.props.elements
        if rel is Nil or len(rel) != len(v) or any(x is Ellipsis for x in rel):
            return
        if Sn.props.type is not Nil:
            for i, x in enumerate(v):
                _unspecified(Sn.props.type, rel[i], x, f"{where}[{i}]")
        elif Sn.props.elements is not Nil and not any(x is Ellipsis for x in Sn.props.elements) \
                and len(Sn.props.elements) == len(v):
            for i, x in enumerate(v):
                _unspecified(Sn.props.elements[i], rel[i], x, f"{where}[{i}]")


def check(case, ctx):
    from d42 import fake, substitute, validate
    from d42.declaration import DeclarationError
    from d42.substitution.errors import SubstitutionError
    spec = case["spec"]
    if substgen.has_ellipsis(case["value"]) or substgen.has_nan(case["value"]) or \
            values.has_zoo(case["value"]):
        ctx.label("skip:not-plain")
        return
    try:
        S = specs.build(spec, share={} if case.get("share") else None)
    except DeclarationError as e:
        ctx.skip_undeclarable(None, e)
        return
    v = substgen.realize(case)
    ctx.label("kind:" + case["kind"])
    if case["kind"] == "dict-subclass":
        # a dict subclass instance stands for its content: the outcome must be that of the equal plain dict
        # (and the argument must come back untouched - a defaultdict must not grow keys)
        plain = _unwrap(case["value"])
        before = _plain_copy(v)

        def outcome(x):
            try:
                return ("ok", canon.canon(substitute(S, x)))
            except SubstitutionError:
                return ("refused",)
            except Exception as e:  # noqa
                return ("raised", type(e).__name__)
        o_sub, o_plain = outcome(v), outcome(values.realize(plain))
        if o_sub != o_plain:
            raise Violation("dict-subclass-differs", f"{_r(S)} % {v!r} -> {o_sub[0]}, but % {plain!r} (the same "
                                                     f"content as a plain dict) -> {o_plain[0]}")
        if _plain_copy(v) != before:
            raise Violation("argument-mutated", f"substitute changed its argument {before!r} into {v!r}")
        ctx.label("dict-subclass-equivalence-checked")
    try:
        R = substitute(S, v)
    except SubstitutionError:
        ctx.label("refused")
        return
    except Exception:  # noqa  (C12)
        ctx.label("other-exception(C12)")
        return
    ctx.label("substituted")
    # the same substitution through visitors of one's own (default-constructed, and with the substitution validator
    # passed explicitly): same result
    from d42.substitution import Substitutor, SubstitutorValidator
    for label, make in (("Substitutor()", lambda: Substitutor()),
                        ("Substitutor(validator=SubstitutorValidator())", lambda: Substitutor(validator=SubstitutorValidator()))):
        try:
            R_own = S.__accept__(make(), value=substgen.realize(case))
        except Exception as e:  # noqa
            raise Violation("own-substitutor-differs", f"{_r(S)} % {v!r} succeeds, S.__accept__({label}, value=v) raised {e!r}")
        if canon.canon(R_own) != canon.canon(R):
            raise Violation("own-substitutor-differs", f"{_r(S)} % {v!r} = {_r(R)}, but S.__accept__({label}, value=v) = {_r(R_own)}")
    try:
        v_ok = not validate(S, v).has_errors()
    except Exception:  # noqa
        v_ok = False
    # (a)
    if v_ok:
        res = validate(R, v)
        if res.has_errors():
            raise Violation("result-rejects-substituted-value",
                            f"{_r(S)} accepts {v!r}, but ({_r(S)} % v) = {_r(R)} rejects it: {res.get_errors()!r}")
    # (d)
    _unspecified(S, R, v)
    # (b) + (c)
    try:
        tol = substgen.float_tolerance(canon.spec_of(R))
    except ValueError:
        tol = 0.2
    ws = []
    empty_alpha = any(s["t"] == "str" and s.get("alphabet") == "" and "value" not in s
                      for s, _ in specs.walk(spec))
    if not empty_alpha:
        for script in (case["rng"], list(reversed(case["rng"])) + [1.0, 0.0]):
            try:
                with rng.scripted(script):
                    g = fake(R)
            except Exception as e:  # noqa
                raise Violation("result-not-generatable", f"({_r(S)} % {v!r}) = {_r(R)}; fake raised {e!r}")
            if validate(R, g).has_errors():
                raise Violation("result-rejects-own-value", f"fake({_r(R)}) = {g!r} is rejected by it")
            ws.append(("generated", g))
    for p in case["probes"]:
        w = values.realize(p)
        try:
            if not validate(R, w).has_errors():
                ws.append(("accepted-probe", w))
        except Exception:  # noqa
            pass
    for how, w in ws:
        d = substgen.carries(v, w, tol)
        if d:
            raise Violation("value-not-pinned", f"R = ({_r(S)} % {v!r}) = {_r(R)}; {how} value {w!r} does "
                                                f"not carry the substituted data: {d}")
    ctx.label("accepted-probes:%d" % min(3, sum(1 for h, _ in ws if h == "accepted-probe")))
    labs = specs.node_labels(spec)
    partial_deep = case["kind"] in ("partial", "extra-keys") and specs.depth_of(spec) >= 1 and \
        isinstance(v, (dict, list))
    window = bool(labs & {"list:head", "list:tail", "list:contains"})
    multi_any = any(s["t"] == "any" and len(s.get("alts", [])) >= 2 for s, _ in specs.walk(spec))
    for lab, on in (("partial-deep", partial_deep), ("window-list", window), ("any>=2", multi_any)):
        if on:
            ctx.label(lab)
    if partial_deep or window or multi_any:
        ctx.mark_nontrivial({"spec": spec, "value": case["value"]},
                            sample_class=(partial_deep, window, multi_any))


def require(ctx, tier):
    L = ctx.labels
    done, refused = L.get("substituted", 0), L.get("refused", 0)
    if done == 0 or done < 0.5 * (done + refused):
        raise HarnessError(f"C04: substitution success rate too low: {done} ok / {refused} refused")
    for lab in ("partial-deep", "window-list", "any>=2", "kind:partial", "accepted-probes:3"):
        if not L.get(lab):
            raise HarnessError(f"C04 generator never produced class {lab!r}")


MANIFEST = {
    "text": "Generated-input search over (schema, plain value) pairs for which substitution succeeds: "
            "the result accepts the value, is generatable under scripted RNG schedules, every value it "
            "generates or accepts among the probes carries the substituted data, and untouched dict "
            "keys keep schema and optionality (independent canon).",
    "design_ref": "DESIGN.md section 3, C04",
    "note": "values R accepts are sampled (generated values + probes), not enumerated",
    "technique": "property-based testing (Hypothesis) with scripted RNG, metamorphic oracles (carries / unchanged keys)",
}
