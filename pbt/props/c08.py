"""C08 - validation is total: any Python value yields a result, and failing is reporting.

case = {"spec": SchemaSpec, "value": recipe with zoo objects (alone, injected at a drawn position,
        or placed where the node's type guard passes), "how": str}
"""
from hypothesis import strategies as st

from .. import specs, values
from ..core import HarnessError, Violation

ID = "C08"
LEVEL = "exploration"
RULE = ("exhaustive: 49 representative constrained nodes (every type; value, precision, bounds, lengths, alphabet, regex, list forms, dict forms, any, alias) x the whole zoo (70 objects) x 3 embeddings (alone, typed-list element, dict value); then Hypothesis draws any declarable SchemaSpec (depth<=3, satisfiable or not, float nodes with "
        "value+precision included) and a value from the hostile zoo (nan, +-inf, -0.0, ints beyond "
        "2**64 and 10**400, Decimal, Fraction, complex, tuples, sets, bytearray, memoryview, range, "
        "plain subclasses of int/float/str/bytes/list/dict, OrderedDict, defaultdict, UUID v1/3/5/nil, "
        "aware/naive/extreme datetimes and dates, ..., Nil, NotImplemented, functions, classes, "
        "modules, object(), surrogate/NUL/long strings, dicts with None/tuple/float/bytes/frozenset "
        "keys, dicts holding the Ellipsis object as a key): alone, injected at a drawn position (element, dict value, dict key) of an otherwise "
        "conforming value, or placed at nodes whose type guard it passes. distinct = canonical JSON "
        "of the case; non-trivial = a zoo item that passes the node's isinstance guard or sits at "
        "depth>=1")
ASSUMPTIONS = ["zoo objects are stdlib data or opaque objects whose own special methods do not raise"]
BUDGET = {"quick": (1500, 4), "thorough": (30000, 16)}


@st.composite
def _case(draw):
    spec = draw(specs.spec_strategy(depth=draw(st.sampled_from([0, 0, 1, 1, 2, 3])),
                                    sat=draw(st.booleans())))
    how = draw(st.sampled_from(["alone", "inject", "inject", "typed", "typed", "typed"]))
    depth = 0
    try:
        if how == "alone":
            v = draw(values.zoo)
        elif how == "inject":
            v, depth = draw(values.inject(draw(values.conforming(spec))))
        else:
            v, n = draw(values.typed_zoo(spec, draw(st.integers(1, 3))))
            if n == 0:
                how = "typed(none-placed)"
    except values.Unsat:
        how = "alone(unsat)"
        v = draw(values.zoo)
    return {"spec": spec, "value": v, "how": how, "depth": depth}


def strategy(tier):
    return _case()


# Exhaustive cross product: representative constrained node of every type  x  the whole zoo  x
# three embeddings (alone, list element, dict value).  This is where "arithmetic / attribute access
# after the type guard" lives, and random pairing reaches a given (node, zoo item) pair too rarely.
import datetime as _dt
import uuid as _uuid

HOT_NODES = [
    {"t": "none"}, {"t": "bool"}, {"t": "bool", "value": True},
    {"t": "int"}, {"t": "int", "value": 3}, {"t": "int", "min": 0, "max": 10, "order": ["min", "max"]},
    {"t": "float"}, {"t": "float", "value": 1.5}, {"t": "float", "value": 1.5, "precision": 2, "order": ["precision"]},
    {"t": "float", "value": 1e300, "precision": 15, "order": ["precision"]},
    {"t": "float", "min": 0.0, "max": 10.0, "order": ["min", "max"]},
    {"t": "float", "min": 0.0, "max": 10.0, "precision": 1, "order": ["min", "max", "precision"]},
    {"t": "str"}, {"t": "str", "value": "ab"}, {"t": "str", "len": ["eq", 2], "order": ["len"]},
    {"t": "str", "len": ["range", 1, 3], "alphabet": "ab", "substr": "a", "order": ["len", "alphabet", "substr"]},
    {"t": "str", "pattern": "^a+$"}, {"t": "str", "alphabet": "", "order": ["alphabet"]},
    {"t": "str", "alphabet": "]\\^-", "substr": "", "order": ["alphabet", "substr"]},
    {"t": "bytes"}, {"t": "bytes", "value": b"ab"},
    {"t": "uuid4"}, {"t": "uuid4", "value": _uuid.UUID("12345678-1234-4234-8234-123456789abc")},
    {"t": "datetime"}, {"t": "datetime", "value": _dt.datetime(2020, 1, 2, 3, 4, 5)},
    {"t": "date"}, {"t": "date", "value": _dt.date(2020, 1, 2)},
    {"t": "list", "form": "untyped"}, {"t": "list", "form": "untyped", "len": ["range", 1, 2]},
    {"t": "list", "form": "typed", "elem": {"t": "int"}},
    {"t": "list", "form": "exact", "elems": [{"t": "int"}, {"t": "str"}]},
    {"t": "list", "form": "contains", "elems": [{"t": "int"}]},
    {"t": "list", "form": "tail", "elems": [{"t": "int"}]},
    {"t": "dict"}, {"t": "dict", "entries": [{"key": "a", "opt": False, "spec": {"t": "int"}},
                                             {"key": "b", "opt": True, "spec": {"t": "str"}}], "relaxed": False},
    {"t": "dict", "entries": [{"key": "a", "opt": False, "spec": {"t": "int"}}], "relaxed": True},
    {"t": "dict", "entries": [], "relaxed": True},
    {"t": "dict", "entries": [{"key": "a", "opt": True, "spec": {"t": "int"}}], "relaxed": True, "relaxed_at": 0},
    {"t": "dict", "entries": [{"key": "{x}", "opt": False, "spec": {"t": "str", "len": ["eq", 2], "order": ["len"]}},
                              {"key": "%s{0}", "opt": False, "spec": {"t": "list", "form": "untyped", "len": ["max", 1]}}],
     "relaxed": False},
    {"t": "any"}, {"t": "any", "alts": [{"t": "int"}, {"t": "str", "len": ["eq", 1], "order": ["len"]}]},
    # unions whose alternatives print with braces / percent signs in them (a mismatch error renders every alternative)
    {"t": "any", "alts": [{"t": "dict", "entries": [{"key": "{id}", "opt": False, "spec": {"t": "int"}},
                                                   {"key": "/users/{user_id}", "opt": True, "spec": {"t": "str"}}], "relaxed": False},
                          {"t": "dict", "entries": [{"key": "}", "opt": False, "spec": {"t": "none"}},
                                                   {"key": "%(x)s", "opt": False, "spec": {"t": "str", "value": "{0} %s {}"}}], "relaxed": True},
                          {"t": "none"}]},
    # a user-defined type that forwards to a built-in: at the root, behind an alias, inside a union
    {"t": "custom", "spec": {"t": "int", "min": 0, "order": ["min"]}},
    {"t": "custom", "own": True, "spec": {"t": "int", "min": 0, "order": ["min"]}},
    {"t": "alias", "name": "Own", "spec": {"t": "custom", "own": True, "spec": {"t": "dict", "entries": [], "relaxed": True}}},
    {"t": "custom", "spec": {"t": "dict", "entries": [{"key": "a", "opt": False, "spec": {"t": "int"}}], "relaxed": False}},
    {"t": "alias", "name": "Custom", "spec": {"t": "custom", "spec": {"t": "list", "form": "typed", "elem": {"t": "str"}}}},
    {"t": "any", "alts": [{"t": "custom", "spec": {"t": "str", "len": ["eq", 2], "order": ["len"]}}, {"t": "none"}]},
    {"t": "alias", "name": "A", "spec": {"t": "float", "value": 2.5, "precision": 1, "order": ["precision"]}},
]
EXHAUSTIVE_COMPLETE = True


def exhaustive(tier):
    from ..codec import Zoo
    for node in HOT_NODES:
        for name in sorted(values.ZOO):
            z = Zoo(name)
            yield {"spec": node, "value": z, "how": "typed", "depth": 0}
            yield {"spec": {"t": "list", "form": "typed", "elem": node}, "value": [z], "how": "typed", "depth": 1}
            yield {"spec": {"t": "dict", "entries": [{"key": "k", "opt": False, "spec": node}], "relaxed": False},
                   "value": {"k": z}, "how": "typed", "depth": 1}
            if node["t"] == "dict" and node.get("entries"):
                # the zoo item as the member under every declared key (keys may hold braces, %s, ...)
                yield {"spec": node, "value": {e["key"]: z for e in node["entries"]}, "how": "typed", "depth": 1}
            if node["t"] == "list" and node.get("elems"):
                yield {"spec": node, "value": [z for _ in node["elems"]], "how": "typed", "depth": 1}


def _zoo_depths(v, d=0):
    from ..codec import Zoo
    if isinstance(v, Zoo):
        yield d, v.name
    elif isinstance(v, (list, tuple)):
        for x in v:
            yield from _zoo_depths(x, d + 1)
    elif isinstance(v, dict):
        for k, x in v.items():
            yield from _zoo_depths(k, d + 1)
            yield from _zoo_depths(x, d + 1)


def check(case, ctx):
    from d42 import ValidationException, validate, validate_or_fail
    from d42.declaration import DeclarationError
    from d42.validation import Formatter, ValidationResult, format_result
    spec = case["spec"]
    try:
        S = specs.build(spec)
    except DeclarationError as e:
        ctx.skip_undeclarable(None, e)
        return
    v = values.realize(case["value"])
    try:
        desc = f"validate({S!r}, <{case['value']!r}>)"
    except Exception as e:  # noqa  (printing is C06's business; the case goes on)
        desc = f"validate(<unprintable {type(S).__name__}: {type(e).__name__}>, <{case['value']!r}>)"
    try:
        res = validate(S, v)
    except Exception as e:  # noqa
        raise Violation(f"validate-raises:{type(e).__name__}", f"{desc} raised {e!r}")
    if not isinstance(res, ValidationResult):
        raise Violation("not-a-result", f"{desc} returned {res!r}")
    errors = res.get_errors()
    rendered = []
    for e in errors:
        try:
            m = e.format(Formatter())
        except Exception as ex:  # noqa
            raise Violation(f"format-raises:{type(ex).__name__}", f"{desc}: {type(e).__name__}.format raised {ex!r}")
        if not isinstance(m, str) or not m.strip():
            raise Violation("empty-message", f"{desc}: {type(e).__name__} renders to {m!r}")
        rendered.append(m)
    # the same validation through validators one constructs oneself with the documented factory arguments
    from d42.validation import Validator
    from th import PathHolder

    class _Result(ValidationResult):
        pass

    class _Path(PathHolder):
        pass
    for label, own in (("validation_result_factory=<zero-argument callable>", Validator(validation_result_factory=lambda: ValidationResult())),
                       ("validation_result_factory=<ValidationResult subclass>", Validator(validation_result_factory=_Result)),
                       ("path_holder_factory=<PathHolder subclass>", Validator(path_holder_factory=_Path))):
        try:
            own_res = S.__accept__(own, value=values.realize(case["value"]))
        except Exception as e:  # noqa
            raise Violation(f"validate-raises:{type(e).__name__}", f"{desc} through Validator({label}) raised {e!r}")
        if len(own_res.get_errors()) != len(errors):
            raise Violation("own-validator-differs", f"{desc}: {len(errors)} errors, through Validator({label}) {len(own_res.get_errors())}")
    try:
        fr = format_result(res)
    except Exception as ex:  # noqa
        raise Violation("format-result-raises", f"{desc}: format_result raised {ex!r}")
    if bool(fr) != bool(errors):
        raise Violation("format-result-mismatch", f"{desc}: format_result -> {fr!r} for {len(errors)} errors")
    try:
        out = validate_or_fail(S, v)
        raised = None
    except ValidationException as ex:
        out, raised = None, ex
    except Exception as ex:  # noqa
        raise Violation(f"validate-or-fail-wrong-exception:{type(ex).__name__}", f"{desc}: {ex!r}")
    if not errors:
        if raised is not None or out is not True:
            raise Violation("validate-or-fail-spurious", f"{desc}: no errors, yet validate_or_fail -> {out!r} / {raised!r}")
    else:
        if raised is None:
            raise Violation("validate-or-fail-swallowed", f"{desc}: {len(errors)} errors but validate_or_fail returned {out!r}")
        msg = str(raised)
        pos = 0
        for m in rendered:
            i = msg.find(m, pos)
            if i < 0:
                raise Violation("exception-misses-error", f"{desc}: message {msg!r} lacks (in order) {m!r}")
            pos = i + len(m)
    zd = list(_zoo_depths(case["value"]))
    for d, name in zd:
        ctx.label("zoo:" + name)
    ctx.label("how:" + case["how"], "errors" if errors else "accepted")
    if case["how"].startswith("typed") and zd:
        ctx.label("type-guard-passing-placement")
    if zd and (case["how"] == "typed" or max(d for d, _ in zd) >= 1):
        ctx.mark_nontrivial(case, sample_class=(zd[0][1], spec["t"], min(2, zd[0][0])))


def require(ctx, tier):
    for lab in ("how:alone", "how:inject", "how:typed", "zoo:nan", "zoo:inf", "zoo:int_10_400",
                "zoo:uuid1", "zoo:str_subclass", "zoo:dict_nonstr_keys", "errors", "accepted",
                "type-guard-passing-placement"):
        if not ctx.labels.get(lab):
            raise HarnessError(f"C08 generator never produced class {lab!r}")


MANIFEST = {
    "text": "Generated-input search over schemas x hostile values (alone, injected anywhere, or placed "
            "where the type guard passes): validate must return a result, every error must render, "
            "format_result must not raise, validate_or_fail must return True exactly when there are "
            "no errors and otherwise raise ValidationException containing every rendered error in "
            "order. Finds arithmetic/attribute access after a type guard and formatter branches that "
            "choke on unusual operands, on the explored combinations.",
    "design_ref": "DESIGN.md section 3, C08",
    "note": "zoo is a fixed list (pbt/values.py ZOO); objects whose own special methods raise are excluded by the property",
    "technique": "property-based testing (Hypothesis) with a hostile-value zoo, totality / reporting-contract oracle",
}
