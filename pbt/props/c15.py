"""C15 - schema equality is structural; schema == value means the value validates.

case = {"spec": S, "rebuild": S' (same declaration, other accepted refinement order),
        "variant": S'' (one parameter / key / flag / element / alternative changed),
        "probes": [value recipes]}
"""
import copy

from hypothesis import strategies as st

from .. import canon, model, specs, values
from ..core import HarnessError, Violation

ID = "C15"
LEVEL = "exploration"
RULE = ("Hypothesis draws a SchemaSpec S (depth<=3), an independent rebuild S' with the refinement "
        "order of every node re-drawn, and a single-step variant S'' (one parameter changed, one "
        "optional flag or relaxed marker toggled, one key/element/alternative added, removed or "
        "replaced by another legal item, `...` included), plus probe values (conforming / near-miss "
        "values of S and S'', junk, zoo). Oracle: reflexive, symmetric, transitive on the triple, "
        "!= is the negation, S == S', equal schemas give identical verdicts on all probes, a probe "
        "accepted by exactly one of S, S'' forces S != S'', and schema == value iff the value "
        "validates. distinct = canonical JSON of (S, S''); non-trivial = variant pair with a "
        "demonstrated distinguishing probe, or a rebuild pair with a re-ordered node")
ASSUMPTIONS = ["probe values decide 'accepts different values' (a variant that no probe separates is not asserted unequal)"]
BUDGET = {"quick": (1200, 4), "thorough": (20000, 16)}


def _reorder(draw, spec):
    s = dict(spec)
    if "order" in s and len(s["order"]) > 1:
        s["order"] = list(draw(st.permutations(s["order"])))
    for k in ("elem", "spec", "a", "b", "d", "s"):
        if k in s and isinstance(s[k], dict) and "t" in s[k]:
            s[k] = _reorder(draw, s[k])
    if "elems" in s:
        s["elems"] = [_reorder(draw, e) for e in s["elems"]]
    if "alts" in s:
        s["alts"] = [_reorder(draw, e) for e in s["alts"]]
    if "entries" in s:
        s["entries"] = [dict(e, spec=_reorder(draw, e["spec"])) for e in s["entries"]]
        if len(s["entries"]) > 1 and draw(st.booleans()):
            s["entries"] = list(draw(st.permutations(s["entries"])))        # (key order is not part of a dict schema)
        if s.get("relaxed") and s["entries"]:
            # ... nor is the place where the `...: ...` marker was written
            where = draw(st.integers(0, len(s["entries"])))
            s.pop("relaxed_at", None)
            if where < len(s["entries"]):
                s["relaxed_at"] = where
    return s


ANY = {"t": "any"}


def _bump(draw, v):
    if isinstance(v, bool):
        return not v
    if isinstance(v, int):
        return v + draw(st.sampled_from([1, -1]))
    if isinstance(v, float):
        # (the last ones stay inside the validation tolerance: declared values that are merely "close")
        import math
        cands = [v + 1.0, v - 1.0, v + 0.25, v * (1 + 8e-10) if v else 1e-300, v * (1 - 8e-10) if v else -1e-300]
        cands = [c for c in cands if math.isfinite(c) and c != v] or [v / 2 if v else 1.0]      # (1.79e308 * (1 + 8e-10) is inf)
        return draw(st.sampled_from(cands))
    if isinstance(v, str):
        import unicodedata
        twin = unicodedata.normalize("NFD", v)
        if twin == v:
            twin = unicodedata.normalize("NFC", v)
        if twin != v and draw(st.booleans()):
            return twin         # the same text on screen, other code points: another value
        return v + "a" if draw(st.booleans()) or not v else v[:-1]
    if isinstance(v, bytes):
        return v + b"\0"
    return None


def _vary_len(draw, lf):
    if lf is None:
        return draw(st.sampled_from([["eq", 1], ["min", 1], ["max", 2], ["range", 1, 3]]))
    op = draw(st.sampled_from(["bump", "kind", "drop"]))
    if op == "drop":
        return None
    if op == "kind":
        n = lf[1]
        return draw(st.sampled_from([k for k in (["eq", n], ["min", n], ["max", n], ["range", n, n + 1])
                                     if k[0] != lf[0]]))
    new = list(lf)
    i = draw(st.integers(1, len(lf) - 1))
    new[i] = max(0, new[i] + draw(st.sampled_from([1, -1])))
    return new


def _vary_here(draw, s):
    """one single-parameter change of this node (may return None if nothing applicable)"""
    t = s["t"]
    s = copy.deepcopy(s)
    sub = specs.spec_strategy(depth=1, sat=True)
    if t in ("bool", "bytes", "uuid4", "datetime", "date"):
        if "value" in s:
            if draw(st.booleans()):
                del s["value"]
            else:
                nv = _bump(draw, s["value"])
                if nv is None:
                    del s["value"]
                else:
                    s["value"] = nv
        else:
            s["value"] = draw({"bool": st.booleans(), "bytes": specs.bytes_, "uuid4": specs.uuid4s,
                               "datetime": specs.datetimes, "date": specs.dates}[t])
        return s
    if t in ("int", "float"):
        keys = [k for k in ("value", "min", "max", "precision") if k in s]
        ops = ["bump"] if keys else []
        ops += ["add", "drop"] if keys else ["add"]
        op = draw(st.sampled_from(ops))
        if op == "bump":
            k = draw(st.sampled_from(keys))
            s[k] = (s[k] % 15) + 1 if k == "precision" else _bump(draw, s[k])
        elif op == "drop":
            k = draw(st.sampled_from(keys))
            del s[k]
        else:
            if "value" in s:
                return None
            cand = [k for k in ("min", "max") + (("precision",) if t == "float" else ()) if k not in s]
            if not cand:
                return None
            k = draw(st.sampled_from(cand))
            s[k] = draw(st.integers(1, 5)) if k == "precision" else \
                (draw(st.integers(-3, 3)) if t == "int" else float(draw(st.integers(-3, 3))))
        s["order"] = [k for k in ("min", "max", "precision") if k in s]
        return s
    if t == "str":
        if "value" in s or "pattern" in s:
            k = "value" if "value" in s else "pattern"
            s[k] = _bump(draw, s[k]) if k == "value" and s[k] else s[k] + "a"
            for extra in ("len", "alphabet", "substr"):
                s.pop(extra, None)
            s["order"] = []
            return s
        op = draw(st.sampled_from(["len", "alphabet", "substr"]))
        if op == "len":
            lf = _vary_len(draw, s.get("len"))
            if lf is None:
                s.pop("len", None)
            else:
                s["len"] = lf
        elif op == "alphabet":
            if "alphabet" in s and draw(st.booleans()):
                s["alphabet"] = s["alphabet"][:-1] if draw(st.booleans()) and s["alphabet"] else s["alphabet"] + "Q"
            elif "alphabet" in s:
                del s["alphabet"]
            else:
                s["alphabet"] = "ab"
        else:
            if "substr" in s:
                s["substr"] = s["substr"] + "a" if draw(st.booleans()) else s["substr"][:-1]
            else:
                s["substr"] = "a"
        s["order"] = [k for k in ("len", "alphabet", "substr") if k in s]
        return s
    if t == "list":
        form = s["form"]
        ops = ["len"]
        if form == "typed":
            ops.append("elem")
        if form in ("exact", "head", "tail", "contains"):
            ops += ["add-elem", "replace-elem"]
            if s["elems"]:
                ops += ["drop-elem", "elem-to-ellipsis"]
            if form != "exact":
                ops.append("ellipsis-to-elem")
        if form == "untyped":
            ops.append("to-typed")
        op = draw(st.sampled_from(ops))
        s.pop("len", None) if op != "len" else None
        if op == "len":
            lf = _vary_len(draw, s.get("len"))
            if lf is None:
                s.pop("len", None)
            else:
                s["len"] = lf
            return s
        if op == "elem":
            s["elem"] = draw(sub)
        elif op == "to-typed":
            s["form"], s["elem"] = "typed", draw(st.one_of(st.just(ANY), sub))
        elif op == "add-elem":
            i = draw(st.integers(0, len(s["elems"])))
            s["elems"].insert(i, draw(st.one_of(st.just(ANY), sub)))
        elif op == "replace-elem":
            if not s["elems"]:
                return None
            i = draw(st.integers(0, len(s["elems"]) - 1))
            s["elems"][i] = draw(st.one_of(st.just(ANY), sub))
        elif op == "drop-elem":
            i = draw(st.integers(0, len(s["elems"]) - 1))
            del s["elems"][i]
            if not s["elems"] and form != "exact":
                s["form"] = "ellipsis"
        elif op == "elem-to-ellipsis":
            # [a, b] -> [a, ...]   /  [a, b] -> [..., b]   / [a, ...] -> (drop) etc.
            if form == "exact":
                if draw(st.booleans()):
                    s["form"], s["elems"] = "head", s["elems"][:-1]
                else:
                    s["form"], s["elems"] = "tail", s["elems"][1:]
                if not s["elems"]:
                    s["form"] = "ellipsis"
            else:
                return None
        elif op == "ellipsis-to-elem":
            item = draw(st.one_of(st.just(ANY), st.just(ANY), sub))
            if form == "head":
                s["form"], s["elems"] = "exact", s["elems"] + [item]
            elif form == "tail":
                s["form"], s["elems"] = "exact", [item] + s["elems"]
            else:
                s["form"], s["elems"] = "head", [item] + s["elems"]
        return s
    if t == "dict":
        if "entries" not in s:
            return {"t": "dict", "entries": [], "relaxed": draw(st.booleans())}
        ops = ["relaxed", "add-key"]
        if s["entries"]:
            ops += ["optional", "drop-key", "replace-member"]
        mixed = len({e["opt"] for e in s["entries"]}) == 2
        if mixed:
            ops += ["swap-optional", "swap-optional"]
        op = draw(st.sampled_from(ops))
        if op == "swap-optional":
            # the optional flag moves from one key to another (as many optional keys as before)
            i = draw(st.sampled_from([j for j, e in enumerate(s["entries"]) if e["opt"]]))
            k = draw(st.sampled_from([j for j, e in enumerate(s["entries"]) if not e["opt"]]))
            s["entries"][i]["opt"], s["entries"][k]["opt"] = False, True
            return s
        if op == "relaxed":
            s["relaxed"] = not s.get("relaxed")
        elif op == "add-key":
            used = [e["key"] for e in s["entries"]]
            free = [k for k in ("new", "zz", 41, None) if not values._key_in(k, used)]
            s["entries"].append({"key": draw(st.sampled_from(free)), "opt": draw(st.booleans()),
                                 "spec": draw(st.one_of(st.just(ANY), sub))})
        else:
            i = draw(st.integers(0, len(s["entries"]) - 1))
            if op == "optional":
                s["entries"][i]["opt"] = not s["entries"][i]["opt"]
            elif op == "drop-key":
                del s["entries"][i]
            else:
                s["entries"][i]["spec"] = draw(st.one_of(st.just(ANY), sub))
        return s
    if t == "any":
        if "alts" not in s:
            return {"t": "any", "alts": [draw(sub)]}
        ops = ["add"] + (["drop", "replace"] if len(s["alts"]) > 1 else ["replace", "undeclare"])
        op = draw(st.sampled_from(ops))
        if op == "undeclare":
            return {"t": "any"}
        if op == "add":
            s["alts"].append(draw(sub))
        else:
            i = draw(st.integers(0, len(s["alts"]) - 1))
            if op == "drop":
                del s["alts"][i]
            else:
                s["alts"][i] = draw(sub)
        return s
    if t == "alias":
        if draw(st.booleans()):
            s["name"] = s["name"] + "2"
            return s
        return None
    if t == "none":
        return {"t": "bool"}
    return None


def _children(s):
    """[(setter, child)] for every direct sub-spec"""
    out = []
    if "elem" in s:
        out.append((("elem", None), s["elem"]))
    for i, e in enumerate(s.get("elems", [])):
        out.append((("elems", i), e))
    for i, e in enumerate(s.get("alts", [])):
        out.append((("alts", i), e))
    for i, e in enumerate(s.get("entries", [])):
        out.append((("entries", i), e["spec"]))
    if s["t"] == "alias":
        out.append((("spec", None), s["spec"]))
    return out


def _variant(draw, s):
    kids = _children(s)
    if kids and draw(st.integers(0, 2)) > 0:
        (k, i), child = draw(st.sampled_from(kids))
        new_child = _variant(draw, child)
        if new_child is None:
            return None
        out = copy.deepcopy(s)
        if k == "entries":
            out["entries"][i]["spec"] = new_child
        elif i is None:
            out[k] = new_child
        else:
            out[k][i] = new_child
        return out
    return _vary_here(draw, s)


@st.composite
def _case(draw):
    spec = draw(specs.spec_strategy(depth=draw(st.sampled_from([0, 1, 1, 2, 2, 3])), sat=True,
                                    patterns=draw(st.booleans())))
    rebuild = _reorder(draw, spec)
    variant = _variant(draw, spec)
    probes = []
    for sp in (spec, variant):
        if sp is None:
            continue
        for _ in range(3):
            try:
                probes.append(draw(values.conforming(sp)))
                probes.append(draw(values.near(sp))[0])
            except values.Unsat:
                break
    probes.append(draw(values.junk))
    probes.append(draw(values.zoo))
    probes.append(...)
    # float probes in the fringe between the tolerance windows of two close declared values
    for sp in (spec, variant):
        for s_, _ in (specs.walk(sp) if sp else ()):
            if s_["t"] == "float" and isinstance(s_.get("value"), float) and s_["value"] == s_["value"] \
                    and abs(s_["value"]) < 1e300 and len(probes) < 40:
                x = s_["value"]
                for f in (1 - 5e-10, 1 + 5e-10, 1 - 1.2e-9, 1 + 1.2e-9):
                    whole = _replace_float(draw, sp, s_, x * f)
                    if whole is not None:
                        probes.append(whole)
    return {"spec": spec, "rebuild": rebuild, "variant": variant, "probes": probes}


def exhaustive(tier):
    """declared values that are 'nearly the same': floats inside each other's validation tolerance, strings that read the
    same with other code points, equal numbers of different kinds - with probes from the fringe between them"""
    def wraps(s):
        return [s, {"t": "list", "form": "typed", "elem": s}, {"t": "dict", "entries": [{"key": "k", "opt": False, "spec": s}], "relaxed": False},
                {"t": "any", "alts": [s, {"t": "none"}]}]

    def place(i, x):
        return [x, [x], {"k": x}, x][i]
    for x in (1.0, 0.3, -2.5e10, 1e-7):
        for f in (1 + 8e-10, 1 - 8e-10, 1 + 1.6e-9, 1 + 2.2e-16):
            a, b = {"t": "float", "value": x}, {"t": "float", "value": x * f}
            fringe = [x, x * f, x * (1 - 5e-10), x * (1 + 5e-10), x * (1 + 1.3e-9), x * (1 - 1.3e-9), x * (1 + 2.1e-9)]
            for i, (wa, wb) in enumerate(zip(wraps(a), wraps(b))):
                yield {"spec": wa, "rebuild": wa, "variant": wb, "probes": [place(i, p) for p in fringe]}
    for u, v in (("caf\u00e9", "cafe\u0301"), ("\u00c5", "\u212b"), ("\u2126", "\u03a9"), ("a", "\u0430"), ("ab", "ab "), ("", " ")):
        for key in ("value", "substr", "alphabet", "pattern"):
            a = {"t": "str", key: u, "order": [key] if key in ("substr", "alphabet") else []}
            b = {"t": "str", key: v, "order": [key] if key in ("substr", "alphabet") else []}
            for i, (wa, wb) in enumerate(zip(wraps(a), wraps(b))):
                yield {"spec": wa, "rebuild": wa, "variant": wb, "probes": [place(i, p) for p in (u, v, u + v, "")]}
    for u, v in ((1, 1.0), (0, False), (1, True), (b"a", "a")):
        for ta, tb in (("int", "float"), ("int", "bool"), ("bytes", "str")):
            if type(u).__name__ == ta and type(v).__name__ == tb:
                a, b = {"t": ta, "value": u}, {"t": tb, "value": v}
                for i, (wa, wb) in enumerate(zip(wraps(a), wraps(b))):
                    yield {"spec": wa, "rebuild": wa, "variant": wb, "probes": [place(i, p) for p in (u, v, None)]}


def _replace_float(draw, sp, node, y):
    """a value conforming to sp in which the float governed by `node` is y (only for shapes where that
    position is easy to find: the node itself, or a direct member of a dict / exact list)"""
    if sp is node:
        return y
    if sp["t"] == "dict":
        for e in sp.get("entries", []):
            if e["spec"] is node:
                try:
                    base = draw(values.conforming(sp))
                except values.Unsat:
                    return None
                base[e["key"]] = y
                return base
    if sp["t"] == "list" and sp.get("form") == "exact":
        for i, e in enumerate(sp["elems"]):
            if e is node:
                try:
                    base = draw(values.conforming(sp))
                except values.Unsat:
                    return None
                base[i] = y
                return base
    return None


def strategy(tier):
    return _case()


def _eq(a, b, what):
    try:
        r = (a == b)
        n = (a != b)
    except Exception as e:  # noqa
        raise Violation("eq-raises", f"{what}: comparing {a!r} and {b!r} raised {e!r}")
    if not isinstance(r, bool) or not isinstance(n, bool):
        raise Violation("eq-not-bool", f"{what}: == gave {r!r}, != gave {n!r}")
    if r == n:
        raise Violation("ne-not-negation", f"{what}: ({a!r} == {b!r}) is {r} and != is {n}")
    return r


def classify(case, v):
    """Known finding: inside an element list `...` compares equal to any schema that accepts the
    Ellipsis object (undeclared schema.any): recognised when the two schemas become structurally
    identical once every such element is read as `...`, and by nothing broader."""
    if v.key == "equal-but-distinguishable" and case.get("variant") is not None:
        from d42 import validate

        def hook(x):
            try:
                return ("...",) if not validate(x, ...).has_errors() else None
            except Exception:  # noqa
                return None
        try:
            a, b = specs.build(case["spec"]), specs.build(case["variant"])
            if canon.canon(a) != canon.canon(b) and canon.canon(a, hook) == canon.canon(b, hook):
                return "ellipsis-equals-accept-all-element"
        except Exception:  # noqa
            pass
    return v.key


KNOWN = {
    "ellipsis-equals-accept-all-element": {
        "spec": {"t": "list", "form": "head", "elems": [{"t": "int"}]},
        "rebuild": {"t": "list", "form": "head", "elems": [{"t": "int"}]},
        "variant": {"t": "list", "form": "exact", "elems": [{"t": "int"}, {"t": "any"}]},
        "probes": [[1], [1, 2]],
    },
}


def check(case, ctx):
    from d42 import validate
    from d42.declaration import DeclarationError
    try:
        S = specs.build(case["spec"])
        S1 = specs.build(case["rebuild"])
    except DeclarationError as e:
        ctx.skip_undeclarable(None, e)
        return
    S2 = None
    if case["variant"] is not None:
        try:
            S2 = specs.build(case["variant"])
        except DeclarationError:
            ctx.label("variant-undeclarable")
    schemas = [("S", S), ("S'", S1)] + ([("S''", S2)] if S2 is not None else [])

    # reflexive / symmetric / negation
    table = {}
    for na, a in schemas:
        for nb, b in schemas:
            table[(na, nb)] = _eq(a, b, f"{na}=={nb}")
    for na, _ in schemas:
        if not table[(na, na)]:
            raise Violation("not-reflexive", f"{na} == {na} is False for {dict(schemas)[na]!r}")
    for (na, nb), r in table.items():
        if table[(nb, na)] != r:
            raise Violation("not-symmetric", f"{na}=={nb} is {r} but {nb}=={na} is {table[(nb, na)]}: "
                                             f"{dict(schemas)[na]!r} vs {dict(schemas)[nb]!r}")
    if not table[("S", "S'")]:
        raise Violation("rebuild-not-equal", f"independent builds differ: {S!r} vs {S1!r}")
    if canon.canon(S) != canon.canon(S1):
        raise HarnessError("rebuild has a different canon: C11 territory, not C15")
    if S2 is not None:
        # transitive on the triple (S' == S always): S' == S and S == S'' implies S' == S''
        if table[("S", "S''")] != table[("S'", "S''")]:
            raise Violation("not-transitive", f"S'==S, S==S'' is {table[('S', 'S' + chr(39) * 2)]} but S'==S'' differs")

    # a schema derived from an object that already took part in comparisons equals an independent build
    # of the same declaration (nothing learnt during == may stick to the object)
    if case["spec"].get("order"):
        last = case["spec"]["order"][-1]
        shorter = dict(case["spec"], order=case["spec"]["order"][:-1])
        shorter.pop(last, None)
        try:
            base = specs.build(shorter)
            _eq(base, base, "base==base"), _eq(base, S, "base==S"), _eq(S, base, "S==base")
            one = dict(case["spec"], order=[last])
            for k in case["spec"]["order"][:-1]:
                one.pop(k, None)
            # apply the last refinement to the compared object, through the DSL
            if last == "len":
                derived = specs._apply_len(base, case["spec"]["len"])
            elif last == "substr":
                derived = base.contains(case["spec"]["substr"])
            else:
                derived = getattr(base, last)(case["spec"][last])
        except DeclarationError:
            derived = None
        if derived is not None:
            if canon.canon(derived) != canon.canon(S):
                raise HarnessError("derive-after-compare rebuilt a different declaration")
            if not _eq(derived, S, "derived==S") or not _eq(S, derived, "S==derived"):
                raise Violation("derived-not-equal-to-rebuild",
                                f"{base!r} was compared, then refined with {last}: the result {derived!r} "
                                f"is not == an independent build of the same declaration")
            ctx.label("derive-after-compare")

    # verdict vectors over the probes
    probes = [values.realize(p) for p in case["probes"]]

    def verdicts(sch):
        out = []
        for p in probes:
            try:
                out.append(not validate(sch, p).has_errors())
            except Exception:  # noqa  (totality is C08's business)
                out.append(None)
        return out

    vS, vS1 = verdicts(S), verdicts(S1)
    for p, ok in zip(probes, vS):
        if ok is None:
            continue
        e = _eq(S, p, "schema==value")
        if e != ok:
            raise Violation("schema-eq-value", f"({S!r} == {p!r}) is {e} but validate says "
                                               f"{'no errors' if ok else 'errors'}")
    # the same value object compared again after the caller edited it in place: the answer follows the value
    for p, ok in zip(probes, vS):
        if ok and type(p) in (list, dict):
            q = copy.deepcopy(p)
            if _eq(S, q, "schema==value") is not True:
                break
            if type(q) is list:
                q.append({"edited": q[:1]})
            else:
                q[("edited", len(q))] = [None]
            try:
                now = not validate(S, copy.deepcopy(q)).has_errors()
            except Exception:  # noqa
                break
            again = _eq(S, q, "schema==value")
            if again != now:
                raise Violation("schema-eq-value", f"({S!r} == value) is {again} after the value was edited in place to {q!r}, "
                                                   f"validate says {'no errors' if now else 'errors'}")
            ctx.label("compared-again-after-in-place-edit")
            break
    if vS != vS1:
        raise Violation("equal-but-verdicts-differ", f"{S!r} == {S1!r} yet verdicts differ on {probes!r}")
    from d42 import substitute
    for p, ok in zip(probes, vS):
        if ok and not values.has_zoo(p) and p is not Ellipsis:
            try:
                d1, d2 = substitute(S, p), substitute(specs.build(case["spec"]), p)
            except Exception:  # noqa  (C12)
                break
            if canon.canon(d1) == canon.canon(d2) and (not _eq(d1, d2, "S%v") or not _eq(d2, d1, "S%v")):
                raise Violation("derived-not-equal-to-rebuild",
                                f"({S!r} % {p!r}) from an object that took part in comparisons is not == the same "
                                f"substitution into a fresh build")
            ctx.label("substitute-after-compare")
            break
    ctx.label("rebuild-pair")
    if case["rebuild"] != case["spec"]:
        ctx.label("rebuild-reordered")
        ctx.mark_nontrivial({"spec": case["spec"], "rebuild": case["rebuild"]}, sample_class="rebuild")
    if S2 is not None:
        vS2 = verdicts(S2)
        diff = [p for p, a, b in zip(probes, vS, vS2) if a is not None and b is not None and a != b]
        same_canon = canon.canon(S) == canon.canon(S2)
        if table[("S", "S''")]:
            if diff:
                raise Violation("equal-but-distinguishable",
                                f"{S!r} == {S2!r} is True, yet {diff[0]!r} is accepted by exactly one of them")
            ctx.label("variant-equal" + ("(same canon)" if same_canon else "(different canon)"))
        else:
            if same_canon:
                raise Violation("unequal-but-identical", f"{S!r} != {S2!r} although structurally identical")
            ctx.label("variant-unequal")
        if diff:
            ctx.label("variant-distinguished")
            ctx.mark_nontrivial({"spec": case["spec"], "variant": case["variant"]},
                                sample_class=("variant", case["spec"]["t"]))


def require(ctx, tier):
    for lab in ("variant-distinguished", "rebuild-reordered", "variant-unequal"):
        if not ctx.labels.get(lab):
            raise HarnessError(f"C15 generator never produced class {lab!r}")


# thorough tier: libFuzzer (atheris) also drives this strategy with coverage feedback from d42
COVERAGE_GUIDED = {"runs": 60000, "seconds": 120}

MANIFEST = {
    "text": "Generated-input search over schema triples (original, independent rebuild, single-step "
            "variant) and probe values: equivalence-relation laws, agreement of == with an "
            "independent structural form and with validation verdicts. Finds one-directional or "
            "prop-blind comparisons and value-fallback leaks on the explored shapes; no absence claim.",
    "design_ref": "DESIGN.md section 3, C15",
    "note": "inequality is only demanded when a generated probe value separates the two schemas; canon() is trusted",
    "technique": "property-based testing (Hypothesis), algebraic-law and metamorphic oracles",
}
