"""C17 - seeded generation is reproducible (same process, fresh interpreters, any hash seed).

case = {"seed": int|str|bytes, "specs": [SchemaSpec without unfixed uuid4/datetime/date]}
Configurations: four persistent worker interpreters started with PYTHONHASHSEED 0, 1, 2, 4242
(pbt/c17_worker.py, JSON lines over pipes) plus the checking process itself, twice, with
unrelated non-generating d42 operations interleaved.
"""
import atexit
import json
import os
import subprocess
import sys

from hypothesis import strategies as st

from .. import codec, regexgen, specs
from ..core import HarnessError, Violation

ID = "C17"
LEVEL = "exploration"
RULE = ("Hypothesis draws a seed k (int, str or bytes) and a sequence of 1-8 SchemaSpecs without "
        "unfixed uuid4/datetime/date nodes, weighted towards regex nodes with negated classes / "
        "[^x] (hash-order-sensitive) and draw-heavy nodes; the sequence is generated after "
        "Random().set_seed(k) in 4 interpreters with different PYTHONHASHSEED values - one that has already generated "
        "(also from schemas whose generation fails below containers), one that serves every request in a forked child "
        "without any history, one whose clocks advance 7 s per reading, one plain - and twice in-process with unrelated "
        "operations interleaved; all outputs must be identical position by "
        "position. distinct = canonical JSON of the case; non-trivial = the sequence holds a "
        "hash-order-sensitive construct or >=3 drawing nodes")
ASSUMPTIONS = ["four hash seeds (0, 1, 2, 4242) stand for 'whatever its hash randomisation'",
               "values are compared through the tagged JSON codec (floats by repr)"]
BUDGET = {"quick": (400, 4), "thorough": (6000, 8)}
HASHSEEDS = ["0", "1", "2", "4242"]
# what else differs between the interpreters (pbt/c17_worker.py): a history of earlier (partly failing) generations,
# no history at all (a forked child per request), clocks that run 7 s per reading
WORKER_OPTS = {"0": ["--prehistory"], "1": ["--fork"], "2": ["--warp-clock"], "4242": []}

_NEG = ["[^a-c]{8}", "[^x]", "[^\\d]{3,6}", "a[^\\w]b", "[^abc0-9]+", "[^ -/]{4}", "(?:[^a]|b){5}",
        "[^\\d\\w]", "x[^y]z[^y]"]


def _fix(spec):
    """replace unfixed uuid4 / datetime / date nodes (they draw from the OS and the clock)"""
    import datetime as dt
    import uuid
    s = dict(spec)
    t = s["t"]
    if t in ("uuid4", "datetime", "date") and "value" not in s:
        s["value"] = {"uuid4": uuid.UUID("12345678-1234-4234-8234-123456789abc"),
                      "datetime": dt.datetime(2020, 1, 2, 3, 4, 5), "date": dt.date(2020, 1, 2)}[t]
    for k in ("elem", "spec", "a", "b", "d"):
        if k in s and isinstance(s[k], dict) and "t" in s[k]:
            s[k] = _fix(s[k])
    if "elems" in s:
        s["elems"] = [_fix(e) for e in s["elems"]]
    if "alts" in s:
        s["alts"] = [_fix(e) for e in s["alts"]]
    if "entries" in s:
        s["entries"] = [dict(e, spec=_fix(e["spec"])) for e in s["entries"]]
    return s


@st.composite
def _case(draw):
    seed = draw(st.one_of(st.integers(0, 2 ** 64), st.integers(-10, 10), st.text(max_size=5),
                          st.binary(max_size=5),
                          # floats, also ones equal to an int seed used elsewhere in the same interpreter (-3 / -3.0)
                          st.integers(-10, 10).map(float), st.sampled_from([0.5, 2.0 ** 64, 1e300, -0.0])))
    neg = st.sampled_from(_NEG).map(lambda p: {"t": "str", "pattern": p})
    pat = regexgen.cheap_pattern_strategy(3).map(lambda p: {"t": "str", "pattern": regexgen.render(p)})
    gen = specs.spec_strategy(depth=draw(st.sampled_from([0, 1, 2])), sat=True, derived=draw(st.booleans())).map(_fix)
    big = 1.7976931348623157e308
    wide = st.sampled_from([{"t": "float", "min": -big, "max": big, "order": ["min", "max"]},
                            {"t": "float", "min": -1e308, "max": 1.5e308, "order": ["max", "min"]},
                            {"t": "int", "min": -2 ** 70, "max": 2 ** 70, "order": ["min", "max"]},
                            {"t": "float", "min": 0.0, "max": 1.0, "precision": 3, "order": ["min", "max", "precision"]}])
    one = st.one_of(neg, neg, pat, gen, gen, wide,
                    st.builds(lambda a: {"t": "list", "form": "typed", "elem": a, "len": ["range", 2, 5]},
                              st.one_of(neg, pat)))
    return {"seed": seed, "specs": draw(st.lists(one, min_size=1, max_size=8))}


def strategy(tier):
    return _case()


_WORKERS = []


_OWNER = [None]


def _workers():
    if _WORKERS and _OWNER[0] == os.getpid():
        return _WORKERS
    # (a pool inherited through fork belongs to the parent: never share its pipes)
    _WORKERS.clear()
    _OWNER[0] = os.getpid()
    here = os.path.dirname(os.path.dirname(os.path.dirname(os.path.abspath(__file__))))
    for hs in HASHSEEDS:
        env = dict(os.environ)
        env["PYTHONHASHSEED"] = hs
        p = subprocess.Popen([sys.executable, "-W", "ignore", "-m", "pbt.c17_worker"] + WORKER_OPTS[hs], cwd=here, env=env,
                             stdin=subprocess.PIPE, stdout=subprocess.PIPE, text=True, bufsize=1)
        hello = json.loads(p.stdout.readline())
        if not hello.get("ready") or hello.get("hashseed") != hs:
            raise HarnessError(f"C17 worker with PYTHONHASHSEED={hs} did not start: {hello!r}")
        _WORKERS.append((hs, p))
    atexit.register(_stop)
    return _WORKERS


def _stop():
    if _OWNER[0] != os.getpid():
        return
    for _, p in _WORKERS:
        try:
            p.stdin.close()
            p.wait(timeout=5)
        except Exception:  # noqa
            p.kill()
    _WORKERS.clear()


def _ask(p, req):
    p.stdin.write(json.dumps(req) + "\n")
    p.stdin.flush()
    line = p.stdout.readline()
    if not line:
        raise HarnessError("C17 worker died")
    return json.loads(line)


def _local(case, interleave):
    from d42 import fake, schema, substitute, validate
    from d42.generation import Random
    schemas = [specs.build(s) for s in case["specs"]]
    Random().set_seed(case["seed"])
    out = []
    for s in schemas:
        if interleave:
            from d42.generation import Generator, RegexGenerator
            rnd = Random()
            Generator(rnd, RegexGenerator(rnd, alphabet={"digits": "01", "letters": "xy", "word": "z"}, max_repeat=2))
            validate(schema.list(schema.int), [1, "x"])
            repr(s)
            try:
                substitute(schema.dict({"a": schema.int, "b": schema.str}), {"a": 1})
            except Exception:  # noqa
                pass
        try:
            out.append(codec.enc(fake(s)))
        except Exception as e:  # noqa
            out.append({"$raised": type(e).__name__})
    from ..c17_worker import _random_methods
    out.append(codec.enc(_random_methods()))
    return out


def _hash_sensitive(spec):
    return any(s["t"] == "str" and "pattern" in s and "[^" in s["pattern"] for s, _ in specs.walk(spec))


def _drawing_nodes(spec):
    return sum(1 for s, _ in specs.walk(spec)
               if s["t"] in ("int", "float", "str", "bool", "bytes", "any") and "value" not in s)


def check(case, ctx):
    import random as _r
    from d42.declaration import DeclarationError
    try:
        for s in case["specs"]:
            specs.build(s)
    except DeclarationError as e:
        ctx.skip_undeclarable(None, e)
        return
    state = _r.getstate()
    try:
        runs = [("in-process", _local(case, False)), ("in-process+interleaved", _local(case, True))]
    finally:
        _r.setstate(state)
    req = codec.enc({"seed": case["seed"], "specs": case["specs"]})
    for hs, p in _workers():
        resp = _ask(p, req)
        if "error" in resp:
            raise HarnessError(f"C17 worker (PYTHONHASHSEED={hs}) failed: {resp['error']}")
        runs.append((f"fresh interpreter PYTHONHASHSEED={hs} {' '.join(WORKER_OPTS[hs])}".rstrip(), resp["out"]))
    ref_name, ref = runs[0]
    known_hit = False
    for name, out in runs[1:]:
        if out != ref:
            diff = [i for i, (a, b) in enumerate(zip(ref, out)) if a != b]
            i = diff[0]
            # Known finding (narrow): only fresh interpreters disagree, and only at positions whose
            # schema holds a negated character class.
            key = "not-reproducible"
            n = len(case["specs"])      # (position n = one call of every method of Random after the schemas)
            if not name.startswith("in-process") and all(j < n and _hash_sensitive(case["specs"][j]) for j in diff):
                key = "negated-class-hash-order"
            what = f"schema #{i} {specs.build(case['specs'][i])!r}" if i < n else "the calls of Random's own methods after the schemas"
            v = Violation(key, f"seed {case['seed']!r}, {what}: "
                               f"{ref_name} -> {ref[i]!r}, {name} -> {out[i]!r}")
            if key == "not-reproducible":
                raise v
            known_hit = v
    if known_hit:
        raise known_hit
    hs_sensitive = any(_hash_sensitive(s) for s in case["specs"])
    draws = sum(_drawing_nodes(s) for s in case["specs"])
    ctx.label("seed:" + type(case["seed"]).__name__, "len:%d" % min(8, len(case["specs"])))
    if hs_sensitive:
        ctx.label("negated-class")
    if any("$raised" in json.dumps(o) for o in ref):
        ctx.label("some-fake-raised(same everywhere)")
    if hs_sensitive or draws >= 3:
        ctx.mark_nontrivial(case, sample_class=(hs_sensitive, min(3, len(case["specs"]))))


KNOWN = {
    "negated-class-hash-order": {"seed": 0, "specs": [{"t": "str", "pattern": "[^a-c]{8}"}]},
}


def require(ctx, tier):
    for lab in ("seed:int", "seed:str", "seed:bytes"):
        if not ctx.labels.get(lab):
            raise HarnessError(f"C17 generator never produced class {lab!r}")


MANIFEST = {
    "text": "Generated-input search over seeds x schema sequences, each executed in four fresh "
            "interpreters with different PYTHONHASHSEED values and twice in-process with unrelated "
            "operations interleaved; outputs must coincide position by position. Finds draws fed by "
            "hash-ordered containers or by sources other than the seeded RNG on the explored schemas; "
            "samples four hash seeds only.",
    "design_ref": "DESIGN.md section 3, C17",
    "note": "4 of 2**32 hash seeds; schemas with unfixed uuid4/datetime/date are excluded as the property says",
    "technique": "property-based testing (Hypothesis), differential oracle across interpreter configurations (subprocess pool)",
}
