"""C07 - schemas are immutable values and all operations on them are pure (history search).

case = {"ops": [op, ...]}  - an interleaved history over a shared pool of schemas and caller-owned
containers.  References are small ints resolved modulo the pool size at run time, so any
sub-sequence is still a valid history and the whole history shrinks as one value.

  ["declare", spec]                         pool += schema built through the DSL
  ["refine", i, k]                          k-th call of the C10 universe of the receiver type (valid / contradictory / ill-typed); may raise
  ["container", "schemas", [i...]]          caller-owned list of pooled schemas
  ["container", "mapping", [[key, i]...]]   caller-owned dict key -> pooled schema
  ["container", "value", plain value]       caller-owned nested value (for from_native / substitute / validate)
  ["declare-from", c]                       schema.list(container) / schema.dict(container)
  ["mutate", c, mutation]                   mutate a caller-owned container *after* it was used
  ["repair", c]                             the caller replaces unconvertible leaves of its value in place
  ["from-native", c]  ["substitute", i, c]  ["validate", i, c]
  ["add", i, k] ["add-empty", i, variant] ["or", i, k] ["invert", i, seed] ["represent", i] ["make-required", i] ["getitem", i, n]
  ["iterate", i] ["eq", i, k] ["mutate-generated", i, seed]
  ["repeat", n]                             re-execute logged operation n on the same inputs

Invariant after every step: every pooled schema's snapshot (independent canon, repr, verdicts on
a fixed probe set) is unchanged; every caller-owned container equals its deep snapshot as of its
last deliberate mutation; a repeated operation has the same outcome fingerprint as the first time.
"""
import copy

from hypothesis import strategies as st

from .. import canon, specs, values
from ..core import Violation
from . import c10

ID = "C07"
LEVEL = "exploration"
RULE = ("Hypothesis draws histories (a fixed 8-operation prefix that fills the pool, then 8-40 drawn operations) "
        "over a shared pool of schemas and caller-owned containers: declarations, refinements taken from the C10 call "
        "universe of the receiver's type (valid / contradictory / ill-typed), declarations from caller-owned lists and "
        "dicts, from_native / substitute / validate with caller-owned values (plain, holding an unconvertible leaf, or "
        "instances of dict subclasses), mutation and repair of those containers after use, +, + with an empty operand, "
        "|, %, ~ (seeded), represent, make_required, indexing, iteration, ==, mutation of generated values, construction "
        "of visitors of one's own with non-default options, substitution of `key: ...` placeholders for drawn keys of a pooled "
        "dict schema, generations that fail below 0-6 containers, declarations of patterns with counts above the repeat limit, "
        "and repetition of logged operations. Oracles after every "
        "step: snapshot of every pooled schema (independent canon, repr, verdicts on 16 probe values) unchanged; every "
        "caller-owned container equal to its snapshot; a repeated operation gives the same outcome; and the same "
        "operation on equal inputs, evaluated by a forked child of a history-free server process (pbt/pristine.py), "
        "gives the same outcome; after the last step a fixed panel of seeded generations (pbt/panel.py) gives what it gives in a "
        "process without history. distinct = canonical JSON of the history; non-trivial = the history contains a "
        "caller-container mutation after use, or a raising refinement, followed by >=1 further operation")
ASSUMPTIONS = ["sequential histories only (d42 has no threads and the property does not quantify over interleavings)",
               "observable behaviour of a schema = independent canon + repr + verdicts on a fixed probe set"]
BUDGET = {"quick": (300, 4), "thorough": (1500, 16)}

PROBES = [None, True, 0, 1, -1, 1.5, "", "a", "ab", b"", [], [1], [1, "a"], {}, {"a": 1}, {"a": 1, "b": 2}]


def _ops(max_len):
    ref = st.integers(0, 7)
    spec = specs.spec_strategy(depth=1, sat=True, patterns=True)
    # a small scalar domain on purpose: equal numbers of different types (0 / 0.0 / False ...) must meet
    # each other inside one value and across the operations of one history
    plain = st.recursive(st.sampled_from([None, True, False, 0, 1, 2, 0.0, 1.0, 2.0, 1.5, "a", ""]),
                         lambda ch: st.one_of(st.lists(ch, max_size=3),
                                              st.dictionaries(st.sampled_from(["a", "b", "c", "a.b", "a.x", "c.d"]), ch, max_size=3)),
                         max_leaves=6)
    from ..codec import Wrapped, Zoo
    hostile_leaf = st.sampled_from([Zoo("set"), Zoo("object"), Zoo("tuple"), Zoo("decimal")])
    # a plain value with one unconvertible leaf below a container (from_native / % must fail on it, and
    # must not remember anything about the failure), or the same content as a dict-subclass instance
    hostile = st.one_of(
        st.tuples(plain, hostile_leaf).map(lambda t: [t[0], [t[1]], {"k": t[0]}]),
        st.tuples(plain, hostile_leaf).map(lambda t: {"a": t[0], "bad": {"deep": t[1]}}),
        st.dictionaries(st.sampled_from(["a", "b", "c"]), plain, max_size=2).map(
            lambda d: Wrapped("defaultdict", d)),
        st.dictionaries(st.sampled_from(["a", "b", "c"]), plain, max_size=2).map(
            lambda d: Wrapped("missingdict", d)),
    )
    refine_call = st.integers(0, 60)      # index into the C10 call universe of the receiver's type
    mutation = st.one_of(
        st.tuples(st.just("append"), ref).map(list), st.just(["pop"]), st.just(["clear"]),
        st.tuples(st.just("setitem"), ref, ref).map(list), st.tuples(st.just("nested"), ref).map(list))
    op = st.one_of(
        st.tuples(st.just("declare"), spec).map(list),
        st.tuples(st.just("declare"), spec).map(list),
        st.tuples(st.just("refine"), ref, refine_call).map(list),
        st.tuples(st.just("refine"), ref, refine_call).map(list),
        st.tuples(st.just("refine"), ref, refine_call).map(list),
        st.tuples(st.just("container"), st.just("schemas"), st.lists(ref, max_size=3)).map(list),
        st.tuples(st.just("container"), st.just("mapping"),
                  st.lists(st.tuples(st.sampled_from(["a", "b", "c", 1]), ref).map(list), max_size=3)).map(list),
        st.tuples(st.just("container"), st.just("value"), plain).map(list),
        st.tuples(st.just("declare-from"), ref).map(list),
        st.tuples(st.just("declare-from"), ref).map(list),
        st.tuples(st.just("mutate"), ref, mutation).map(list),
        st.tuples(st.just("mutate"), ref, mutation).map(list),
        st.tuples(st.just("container"), st.just("value"), plain).map(list),
        st.tuples(st.just("container"), st.just("value"), hostile).map(list),
        st.tuples(st.just("repair"), ref).map(list),
        st.tuples(st.just("from-native"), ref).map(list),
        st.tuples(st.just("from-native"), ref).map(list),
        st.tuples(st.just("substitute"), ref, ref).map(list),
        st.tuples(st.just("substitute"), ref, ref).map(list),
        st.tuples(st.just("substitute"), ref, ref).map(list),
        st.tuples(st.just("validate"), ref, ref).map(list),
        st.tuples(st.just("add"), ref, ref).map(list),
        st.tuples(st.just("or"), ref, ref).map(list),
        st.tuples(st.just("add-empty"), ref, st.integers(0, 3)).map(list),
        st.tuples(st.just("invert"), ref, st.integers(0, 5)).map(list),
        st.tuples(st.just("invert"), ref, st.integers(0, 5)).map(list),
        st.just(["own-generators"]),
        st.tuples(st.just("represent"), ref).map(list),
        st.tuples(st.just("make-required"), ref).map(list),
        st.tuples(st.just("getitem"), ref, ref).map(list),
        st.tuples(st.just("iterate"), ref).map(list),
        st.tuples(st.just("eq"), ref, ref).map(list),
        st.tuples(st.just("mutate-generated"), ref, st.integers(0, 5)).map(list),
        st.tuples(st.just("repeat"), ref).map(list),
        # patterns with explicit and open-ended counts around / above the generator's repeat limit
        st.tuples(st.just("declare"), _pattern_spec()).map(list),
        st.tuples(st.just("declare"), _pattern_spec()).map(list),
        # `key: ...` placeholders for the keys of a pooled dict schema selected by a bit mask
        st.tuples(st.just("substitute-placeholders"), ref, st.integers(1, 15), st.booleans()).map(list),
        st.tuples(st.just("substitute-placeholders"), ref, st.integers(1, 15), st.booleans()).map(list),
        # a generation that fails below `depth` containers
        # a value that spells one member twice: nested under its key and as a dotted key next to it
        st.tuples(st.just("substitute-dotted"), ref, st.integers(0, 7)).map(list),
        st.tuples(st.just("substitute-dotted"), ref, st.integers(0, 7)).map(list),
        # a value that carries schema notation (`...: ...`, `key: ...`, `[..., x]`) and is looked at again afterwards
        st.tuples(st.just("substitute-marker"), ref, st.integers(0, 7)).map(list),
        st.tuples(st.just("substitute-marker"), ref, st.integers(0, 7)).map(list),
        # make_required with a caller-owned collection of keys (set / list / tuple), which must come back untouched
        st.tuples(st.just("make-required-keys"), ref, st.integers(0, 15), st.sampled_from(["set", "list", "tuple", "set"])).map(list),
        st.tuples(st.just("make-required-keys"), ref, st.integers(0, 15), st.sampled_from(["set", "list", "tuple", "set"])).map(list),
        st.tuples(st.just("failing-fake"), st.integers(0, 6), st.integers(0, 6)).map(list),
        st.tuples(st.just("failing-fake"), st.integers(0, 6), st.integers(3, 6)).map(list),
    )
    prefix = st.tuples(
        st.tuples(st.just("declare"), spec).map(list),
        st.tuples(st.just("declare"), specs.dict_spec(1, True, dict(alias=False, patterns=False,
                                                                   custom=False, derived=False))).map(list),
        st.tuples(st.just("declare"), _relaxed_first()).map(list),
        st.tuples(st.just("declare"), st.sampled_from([{"t": "list", "form": "untyped"}, {"t": "dict"},
                                                      {"t": "any"}])).map(list),
        st.tuples(st.just("container"), st.just("schemas"), st.lists(ref, min_size=1, max_size=3)).map(list),
        st.tuples(st.just("container"), st.just("mapping"),
                  st.lists(st.tuples(st.sampled_from(["a", "b", "c", 1]), ref).map(list), min_size=1,
                           max_size=3)).map(list),
        st.tuples(st.just("container"), st.just("value"), plain).map(list),
        st.tuples(st.just("container"), st.just("value"), hostile).map(list),
    ).map(list)
    tail = st.lists(op, min_size=8, max_size=max_len - 8)
    return st.tuples(prefix, tail).map(lambda t: t[0] + t[1])


def _pattern_spec():
    from .. import regexgen
    big = st.sampled_from(["x{40,}", "[ab]{33,}?", "(?:ab){64,}", "\\d{44}", "y{0,44}"])
    return st.one_of(regexgen.cheap_pattern_strategy(2).map(regexgen.render), big,
                     st.tuples(big, regexgen.cheap_pattern_strategy(1).map(regexgen.render)).map("-".join)
                     ).map(lambda p: {"t": "str", "pattern": p})


def _relaxed_first():
    """a relaxed dict whose `...: ...` entry is not declared last"""
    sub = specs.spec_strategy(depth=0, sat=True, patterns=False)
    return st.lists(st.tuples(st.sampled_from(["a", "b", "c", "id"]), st.booleans(), sub), min_size=1,
                    max_size=3, unique_by=lambda t: t[0]).map(
        lambda es: {"t": "dict", "entries": [{"key": k, "opt": o, "spec": sp} for k, o, sp in es],
                    "relaxed": True, "relaxed_at": 0})


def strategy(tier):
    return st.fixed_dictionaries({"ops": _ops(30 if tier == "quick" else 50)})


# ---------------------------------------------------------------------------------------------
_TYPENAME = {"BoolSchema": "bool", "IntSchema": "int", "FloatSchema": "float", "StrSchema": "str",
             "ListSchema": "list", "DictSchema": "dict", "AnySchema": "any", "BytesSchema": "bytes",
             "UUID4Schema": "uuid4", "DateTimeSchema": "datetime", "DateSchema": "date"}


def _deep(x):
    """structural snapshot of a caller-owned container (schemas by identity + canon)"""
    from d42.declaration import Schema
    if isinstance(x, Schema):
        return ("schema", id(x), canon.canon(x))
    if isinstance(x, list):
        return ("list",) + tuple(_deep(i) for i in x)
    if isinstance(x, dict):
        return ("dict",) + tuple((canon.atom(k), _deep(v)) for k, v in x.items())
    return canon.atom(x)


def _snap(s):
    from d42 import validate
    verdicts = []
    for p in PROBES:
        try:
            verdicts.append(not validate(s, copy.deepcopy(p)).has_errors())
        except Exception as e:  # noqa
            verdicts.append(type(e).__name__)
    try:
        r = repr(s)
    except Exception as e:  # noqa
        r = "<repr raised %s>" % type(e).__name__
    return (canon.canon(s), r, tuple(verdicts))


_SERVER = {"pid": None, "proc": None}


def _pristine(req):
    """ask the history-free evaluator (pbt/pristine.py); one server per checking process"""
    import json
    import os
    import subprocess
    import sys
    from .. import codec
    from ..core import HarnessError
    if _SERVER["pid"] != os.getpid():
        here = os.path.dirname(os.path.dirname(os.path.dirname(os.path.abspath(__file__))))
        proc = subprocess.Popen([sys.executable, "-W", "ignore", "-m", "pbt.pristine"], cwd=here,
                                stdin=subprocess.PIPE, stdout=subprocess.PIPE, text=True, bufsize=1)
        hello = json.loads(proc.stdout.readline() or "{}")
        if not hello.get("ready"):
            raise HarnessError("pristine evaluator did not start")
        _SERVER.update(pid=os.getpid(), proc=proc)
        import atexit
        atexit.register(lambda: (_SERVER["pid"] == os.getpid()) and proc.stdin.close())
    proc = _SERVER["proc"]
    proc.stdin.write(json.dumps(codec.enc(req)) + "\n")
    proc.stdin.flush()
    line = proc.stdout.readline()
    if not line:
        raise HarnessError("pristine evaluator died")
    return json.loads(line)


def _portable_fp(fp, out):
    from d42.declaration import Schema
    if fp[0] == "raised":
        return ["raised", fp[1]]
    if isinstance(out, Schema):
        return ["schema", repr(canon.canon(out))]
    return ["value", repr(out)]


def _as_spec(s):
    """spec of a pooled schema, only if rebuilding it reproduces the schema exactly"""
    try:
        from .. import codec
        sp = canon.spec_of(s)
        # the spec travels to the other process as tagged JSON: it must survive that trip unchanged
        # (an instance of a bytes / str subclass as a fixed value would arrive as the plain type)
        again = specs.build(codec.loads(codec.dumps(sp)))
        if canon.canon(again) == canon.canon(s) and repr(again) == repr(s):
            return sp
    except Exception:  # noqa
        pass
    return None


class _World:
    def __init__(self):
        self.pool = []          # [schema]
        self.snaps = []         # snapshot per pooled schema
        self.conts = []         # [(kind, object)]
        self.csnaps = []
        self.log = []           # [(thunk, fingerprint)]

    def add(self, s):
        self.pool.append(s)
        self.snaps.append(_snap(s))

    def schema(self, i):
        return self.pool[i % len(self.pool)] if self.pool else None

    def cont(self, i, kinds=None):
        c = [(n, k, o) for n, (k, o) in enumerate(self.conts) if kinds is None or k in kinds]
        if not c:
            return None, None, None
        return c[i % len(c)]


def _fingerprint(fn):
    from d42.declaration import Schema
    try:
        out = fn()
    except Violation:
        raise
    except Exception as e:  # noqa
        return ("raised", type(e).__name__, str(e)[:300]), None
    if isinstance(out, Schema):
        return ("schema", canon.canon(out)), out
    return ("value", _deep(out) if isinstance(out, (list, dict)) else repr(out)), out


def check(case, ctx):
    import random as _r
    from d42 import fake, represent, schema, substitute, validate
    from d42.declaration import DeclarationError, Schema
    from d42.generation import Random
    from d42.utils import from_native, make_required

    w = _World()
    pristine_budget = [12]
    mutated_after_use = raised_refine = False
    interesting_at = None
    used = set()        # container indices that were passed to d42
    rstate = _r.getstate()
    try:
        for step, op in enumerate(case["ops"]):
            name = op[0]
            thunk = None
            if name == "declare":
                try:
                    w.add(specs.build(op[1]))
                except DeclarationError:
                    pass
            elif name == "refine":
                s = w.schema(op[1])
                uni = c10.UNIVERSE.get(_TYPENAME.get(type(s).__name__), []) if s is not None else []
                call = uni[op[2] % len(uni)] if uni else None
                if call is not None and callable(getattr(s, call[0], None)):
                    args = [c10._arg(a) for a in call[1:]]

                    def thunk(s=s, call=call, args=args):
                        return getattr(s, call[0])(*args)
            elif name == "container":
                kind = op[1]
                if kind == "schemas" and w.pool:
                    obj = [w.schema(i) for i in op[2]]
                elif kind == "mapping" and w.pool:
                    obj = {k: w.schema(i) for k, i in op[2]}
                elif kind == "value":
                    obj = values.realize(op[2])
                else:
                    obj = None
                if obj is not None:
                    w.conts.append((kind, obj))
                    w.csnaps.append(_deep(obj))
            elif name == "declare-from":
                n, kind, obj = w.cont(op[1], ("schemas", "mapping"))
                if obj is not None:
                    used.add(n)

                    def thunk(kind=kind, obj=obj):
                        return schema.list(obj) if kind == "schemas" else schema.dict(obj)
            elif name == "mutate":
                n, kind, obj = w.cont(op[1])
                if obj is not None:
                    m = op[2]
                    filler = w.schema(m[1]) if kind in ("schemas", "mapping") and len(m) > 1 else 7
                    try:
                        if isinstance(obj, list):
                            if m[0] == "append":
                                obj.append(filler)
                            elif m[0] == "pop" and obj:
                                obj.pop()
                            elif m[0] == "clear":
                                obj.clear()
                            elif m[0] == "setitem" and obj:
                                obj[m[1] % len(obj)] = w.schema(m[2]) if kind == "schemas" else "changed"
                            elif m[0] == "nested" and obj:
                                inner = obj[m[1] % len(obj)]
                                if isinstance(inner, list):
                                    inner.append("deep")
                                elif isinstance(inner, dict):
                                    inner["deep"] = 1
                        elif isinstance(obj, dict):
                            if m[0] == "append":
                                obj["added"] = filler
                            elif m[0] == "pop" and obj:
                                obj.pop(next(iter(obj)))
                            elif m[0] == "clear":
                                obj.clear()
                            elif m[0] == "setitem" and obj:
                                k = list(obj)[m[1] % len(obj)]
                                obj[k] = w.schema(m[2]) if kind == "mapping" else "changed"
                            elif m[0] == "nested" and obj:
                                inner = obj[list(obj)[m[1] % len(obj)]]
                                if isinstance(inner, list):
                                    inner.append("deep")
                                elif isinstance(inner, dict):
                                    inner["deep"] = 1
                    finally:
                        new = _deep(obj)
                        if new != w.csnaps[n] and n in used:
                            mutated_after_use = True
                            interesting_at = step if interesting_at is None else interesting_at
                        w.csnaps[n] = new
            elif name == "repair":
                # the caller fixes its own value in place: every unconvertible leaf becomes a plain one
                n, kind, obj = w.cont(op[1], ("value",))
                if obj is not None:
                    _repair(obj)
                    w.csnaps[n] = _deep(obj)
            elif name == "from-native":
                n, kind, obj = w.cont(op[1], ("value",))
                if obj is not None:
                    used.add(n)

                    def thunk(obj=obj):
                        return from_native(obj)
            elif name in ("substitute", "validate"):
                s = w.schema(op[1])
                n, kind, obj = w.cont(op[2], ("value",))
                if s is not None and obj is not None:
                    used.add(n)
                    if name == "substitute":
                        def thunk(s=s, obj=obj):
                            return substitute(s, obj)
                    else:
                        def thunk(s=s, obj=obj):
                            return [(type(e).__name__, "".join(str(o) for o in e.path))
                                    for e in validate(s, obj).get_errors()]
            elif name in ("add", "or", "eq"):
                a, b = w.schema(op[1]), w.schema(op[2])
                if a is not None:
                    if name == "add":
                        def thunk(a=a, b=b):
                            return a + b
                    elif name == "or":
                        def thunk(a=a, b=b):
                            return a | b
                    else:
                        def thunk(a=a, b=b):
                            return (a == b, a != b)
            elif name == "add-empty":
                a = w.schema(op[1])
                if a is not None:
                    variant = op[2]

                    def thunk(a=a, variant=variant):
                        e = [schema.dict({}), schema.dict, schema.dict({}), schema.dict({...: ...})][variant]
                        return (a + e) if variant < 2 else (e + a)
            elif name in ("invert", "mutate-generated"):
                s = w.schema(op[1])
                if s is not None and not _volatile(s):
                    seed = op[2]

                    def thunk(s=s, seed=seed, mutate=(name == "mutate-generated")):
                        Random().set_seed(seed)
                        g = ~s
                        out = copy.deepcopy(g)
                        if mutate:
                            if isinstance(g, list):
                                g.append("tampered")
                            elif isinstance(g, dict):
                                g["tampered"] = 1
                        return out
            elif name == "substitute-placeholders":
                s = w.schema(op[1])
                keys = [k for k in _declared_keys(s)]
                if keys:
                    val = {}
                    for j, k in enumerate(keys):
                        if (op[2] >> (j % 4)) & 1:
                            val[k] = ...
                        elif op[3] and j % 2:
                            val[k] = copy.deepcopy(PROBES[(op[2] + j) % len(PROBES)])     # most likely refused: fine

                    def thunk(s=s, val=val):
                        return substitute(s, val)
            elif name == "substitute-marker":
                s = w.schema(op[1])
                if s is not None:
                    shapes = [{"a": 1, ...: ...}, {...: ...}, {"a": {"b": 2, ...: ...}}, [{"x": 1, ...: ...}], {"a": [1, ...]},
                              [..., 1], {"b": ..., ...: ...}, {"a": {...: ...}, "c": None}]
                    val = copy.deepcopy(shapes[op[2] % len(shapes)])
                    before_val = copy.deepcopy(val)

                    def thunk(s=s, val=val, before_val=before_val):
                        try:
                            return substitute(s, val)
                        finally:
                            if _deep(val) != _deep(before_val):
                                raise Violation("argument-mutated", f"substitute({s!r}, value) changed the caller's value from "
                                                                    f"{before_val!r} to {val!r}")
            elif name == "substitute-dotted":
                s = w.schema(op[1])
                keys = [k for k in _declared_keys(s) if isinstance(k, str)]
                if keys:
                    k = keys[op[2] % len(keys)]
                    inner = [{"id": 2}, {}, {"name": "n", "x": [1]}, [1, 2]][op[2] % 4]
                    val = {k: inner, k + ".name": "Alice"} if op[2] < 4 else {k + ".x": 1, k: inner, "zz.y": {"q": 1}}
                    before_val = copy.deepcopy(val)

                    def thunk(s=s, val=val, before_val=before_val):
                        try:
                            return substitute(s, val)
                        finally:
                            if _deep(val) != _deep(before_val):
                                raise Violation("argument-mutated", f"substitute({s!r}, value) changed the caller's value from "
                                                                    f"{before_val!r} to {val!r}")
            elif name == "make-required-keys":
                s = w.schema(op[1])
                keys = _declared_keys(s)
                if keys:
                    chosen = [k for j, k in enumerate(keys) if (op[2] >> (j % 4)) & 1] or keys[:1]
                    if op[2] == 15:
                        chosen = chosen + ["no-such-key"]       # (raises: the argument must survive that too)
                    try:
                        coll = {"set": set, "list": list, "tuple": tuple}[op[3]](chosen)
                    except TypeError:
                        coll = list(chosen)
                    before_keys = copy.copy(coll)

                    def thunk(s=s, coll=coll, before_keys=before_keys):
                        try:
                            return make_required(s, coll)
                        finally:
                            if coll != before_keys or type(coll) is not type(before_keys):
                                raise Violation("argument-mutated", f"make_required({s!r}, keys) changed its keys argument "
                                                                    f"from {before_keys!r} to {coll!r}")
            elif name == "failing-fake":
                def thunk(kind=op[1], depth=op[2]):
                    from .. import panel
                    return panel.failing(kind, depth)
            elif name == "represent":
                s = w.schema(op[1])
                if s is not None:
                    def thunk(s=s):
                        return represent(s)
            elif name == "make-required":
                s = w.schema(op[1])
                if s is not None:
                    def thunk(s=s):
                        return make_required(s)
            elif name == "getitem":
                s = w.schema(op[1])
                if s is not None and hasattr(s, "__getitem__"):
                    key = ["a", "b", "c", 1, "zz"][op[2] % 5]

                    def thunk(s=s, key=key):
                        return s[key]
            elif name == "iterate":
                s = w.schema(op[1])
                if s is not None and hasattr(s, "__iter__"):
                    def thunk(s=s):
                        return [canon.canon(x) if isinstance(x, Schema) else canon.atom(x) for x in s]
            elif name == "own-generators":
                # visitors of one's own, constructed with non-default options and used once
                from d42.generation import Generator, RegexGenerator
                from d42.validation import Formatter, Validator
                rnd = Random()
                Generator(rnd, RegexGenerator(rnd, alphabet={"digits": "01", "letters": "xy", "word": "z"},
                                              max_repeat=2))
                Validator()
                Formatter("root")
            elif name == "repeat":
                if w.log:
                    old_thunk, old_fp, old_step, dep = w.log[op[1] % len(w.log)]
                    if dep is not None and w.csnaps[dep[0]] != dep[1]:
                        ctx.label("repeat-skipped(input deliberately mutated since)")
                        continue
                    fp, out = _fingerprint(old_thunk)
                    if fp != old_fp:
                        raise Violation("repeat-differs",
                                        f"operation {case['ops'][old_step]!r} (step {old_step}) repeated at step "
                                        f"{step} gives {fp!r}, first time {old_fp!r}")
            else:
                raise ValueError(op)

            if thunk is not None:
                fp, out = _fingerprint(thunk)
                if fp[0] == "raised":
                    if name == "refine":
                        raised_refine = True
                        interesting_at = step if interesting_at is None else interesting_at
                dep = (n, w.csnaps[n]) if name in ("declare-from", "from-native", "substitute", "validate") else None
                w.log.append((thunk, fp, step, dep))
                # ---- the same operation on equal inputs in a process without history ---------------
                if name in ("from-native", "substitute", "validate", "add", "or", "represent",
                            "make-required", "eq", "invert") and not pristine_budget[0] <= 0:
                    ins = {"from-native": [], "substitute": [s], "validate": [s], "represent": [s],
                           "make-required": [s], "invert": [s]}.get(name)
                    if ins is None:
                        ins = [a, b]
                    sps = [_as_spec(x) for x in ins]
                    val = obj if name in ("from-native", "substitute", "validate") else None
                    if all(sp is not None for sp in sps) and (val is None or _encodable(val)):
                        pristine_budget[0] -= 1
                        resp = _pristine({"op": name, "schemas": sps, "value": val,
                                          "has_value": val is not None,
                                          "extra": op[2] if name == "invert" else None})
                        if "fp" in resp:
                            mine = _portable_fp(fp, out)
                            if resp["fp"] != mine:
                                raise Violation("history-dependent-result",
                                                f"step {step} {op!r}: inside this history -> {mine!r}; the same "
                                                f"operation on equal inputs in a fresh process -> {resp['fp']!r}")
                            ctx.label("pristine-compared:" + name)
                        else:
                            ctx.label("pristine-error")
                if isinstance(out, Schema):
                    from .c12 import _illegal_ellipsis
                    if name in ("substitute-marker", "substitute-placeholders") and _illegal_ellipsis(out):
                        ctx.label("result-not-pooled(C12 finding: `...` copied into the schema)")
                    else:
                        w.add(out)
                ctx.label("op:" + name + (":raised" if fp[0] == "raised" else ""))

            # ---- invariants after every step -------------------------------------------------------
            for i, s in enumerate(w.pool):
                now = _snap(s)
                if now != w.snaps[i]:
                    what = "structure" if now[0] != w.snaps[i][0] else "repr" if now[1] != w.snaps[i][1] else "verdicts"
                    raise Violation("schema-changed",
                                    f"after step {step} {op!r}: pooled schema #{i} changed its {what}: "
                                    f"was {w.snaps[i][1]}, now {now[1]}")
            for n, (kind, obj) in enumerate(w.conts):
                if _deep(obj) != w.csnaps[n]:
                    raise Violation("argument-mutated",
                                    f"after step {step} {op!r}: caller-owned {kind} container #{n} was modified "
                                    f"by d42: now {obj!r}")
        # ---- after the history: a fixed panel of seeded generations gives what it gives in a process without history
        from .. import panel
        mine = _fingerprint(lambda: panel.run() + panel.run_ops())[0]
        mine = ["raised", mine[1]] if mine[0] == "raised" else ["value", mine[1]]
        ref_fp = _panel_reference()
        if ref_fp is not None:
            if mine != ref_fp:
                raise Violation("history-dependent-generation",
                                f"after this history the fixed panel of seeded generations and conversions (pbt/panel.py) gives "
                                f"{_first_diff(mine, ref_fp)}")
            ctx.label("panel-compared")
    finally:
        _r.setstate(rstate)
    ctx.label("steps:%d" % (10 * (len(case["ops"]) // 10)), "pool:%d" % min(len(w.pool), 10))
    if mutated_after_use:
        ctx.label("container-mutated-after-use")
    if raised_refine:
        ctx.label("refinement-raised")
    if interesting_at is not None and interesting_at < len(case["ops"]) - 1:
        ctx.mark_nontrivial(case, sample_class=(mutated_after_use, raised_refine))


def _declared_keys(s):
    from d42.declaration.types import DictSchema
    from niltype import Nil
    if isinstance(s, DictSchema) and s.props.keys is not Nil:
        return [k for k in s.props.keys if k is not Ellipsis]
    return []


def _panel_reference():
    import os
    if _SERVER.get("panel_pid") != os.getpid():
        resp = _pristine({"op": "panel", "schemas": [], "value": None, "has_value": False, "extra": None})
        _SERVER["panel"] = resp.get("fp")
        _SERVER["panel_pid"] = os.getpid()
    return _SERVER["panel"]


def _first_diff(a, b):
    if a[0] != b[0]:
        return f"{a[0]} {a[1][:200]!r}, in a fresh process {b[0]} {b[1][:200]!r}"
    x, y = a[1], b[1]
    i = next((i for i, (p, q) in enumerate(zip(x, y)) if p != q), min(len(x), len(y)))
    return f"...{x[max(0, i - 60):i + 60]!r} where a fresh process gives ...{y[max(0, i - 60):i + 60]!r}"


def _repair(obj):
    plain_types = (type(None), bool, int, float, str, bytes, list, dict)
    if isinstance(obj, list):
        for i, x in enumerate(obj):
            if not isinstance(x, plain_types):
                obj[i] = "repaired"
            else:
                _repair(x)
    elif isinstance(obj, dict):
        for k, x in list(obj.items()):
            if not isinstance(x, plain_types):
                obj[k] = "repaired"
            else:
                _repair(x)


def _encodable(v):
    from .. import codec
    try:
        codec.enc(v)
        return True
    except TypeError:
        return False


def _volatile(s):
    """not to be generated from in a history: draws from the OS / clock, or declares a huge length
    (schema.list.len(2**63) is declarable; generating from it would never end)"""
    try:
        for x, _ in specs.walk(canon.spec_of(s)):
            if x["t"] in ("uuid4", "datetime", "date") and "value" not in x:
                return True
            lf = x.get("len")
            if lf and any(isinstance(n, int) and n > 64 for n in lf[1:]):
                return True
        return False
    except (ValueError, AttributeError):
        return True


def require(ctx, tier):
    from ..core import HarnessError
    for lab in ("container-mutated-after-use", "refinement-raised", "op:declare-from", "op:substitute",
                "op:add", "op:or", "op:invert", "op:make-required"):
        if not ctx.labels.get(lab):
            raise HarnessError(f"C07 generator never produced class {lab!r}")


MANIFEST = {
    "text": "History search: generated interleavings of public operations over a shared pool of schemas "
            "and caller-owned containers, with snapshot invariants (independent canon, repr, verdict "
            "vector) for every pooled schema and every argument after every step, and outcome "
            "fingerprints for repeated operations. Finds in-place prop updates, operand key tables "
            "written by + / make_required, declarations aliasing caller data and cached visitor state "
            "on explored histories; the whole history shrinks as one value.",
    "design_ref": "DESIGN.md section 3, C07",
    "note": "op sequences are interpreted by pbt/props/c07.py (references resolved modulo pool size) rather than "
            "by hypothesis.stateful, so that a replay file is the plain history; sequential only",
    "technique": "model-based / stateful property testing (Hypothesis-generated operation histories with invariants after every step)",
}
