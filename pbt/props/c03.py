"""C03 - every validation error is true and points at the offending sub-value.

case = {"spec": SchemaSpec, "value": value recipe (conforming value after 1-4 perturbation steps)}
Checked for d42.validate and for the lenient SubstitutorValidator (anchor d42/substitution/_validator.py).
"""
import collections
import datetime as _dt
import re
import uuid

from hypothesis import strategies as st

from .. import canon, specs, values
from ..core import HarnessError, Violation

ID = "C03"
LEVEL = "exploration"
RULE = ("exhaustive part: float nodes with value + precision + a bound inside the value's rounding bucket against numbers "
        "equal at that precision; required keys of odd kinds (None, 0, '', False, (), braces, dotted) missing at two "
        "depths; missing elements at every index. Generated part: Hypothesis draws a SchemaSpec biased to containers with "
        ">=2 siblings (depth<=3; members may be one shared object) and a value made from an independently built conforming "
        "value by up to 4 spec-aware near-misses at different nodes, or 1-4 generic perturbation steps below the root, or "
        "an unrelated value. For every error of validate() and of the substitution validator (also on the value with `...` "
        "placeholders added to its lists): (1) the path resolves from the root value to the very object reported, (2) the "
        "stated fact is true of it, (3) the parameter reported is declared at that position, (4) the message contains the "
        "independently rendered path (also under Formatter('payload')), rendering changes neither the error nor a second "
        "rendering, (5) errors of exact/typed lists, dicts and aliases equal the prefixed union of their members' errors "
        "plus the container's own missing/extra errors. distinct = canonical JSON of the case; non-trivial = an error at "
        "depth>=1 in a container with >=2 siblings")
ASSUMPTIONS = ["dict keys in generated schemas are value-hashable (PathHolder deep-copies key operands)",
               "the order of errors is not asserted; for contains-lists any one window's errors are acceptable"]
BUDGET = {"quick": (1500, 4), "thorough": (25000, 16)}

PYTYPE = {"none": type(None), "bool": bool, "int": int, "float": float, "str": str, "list": list,
          "dict": dict, "bytes": bytes, "uuid4": uuid.UUID, "datetime": _dt.datetime, "date": _dt.date}


@st.composite
def _case(draw):
    depth = draw(st.sampled_from([0, 1, 1, 2, 2, 3]))
    spec = draw(specs.spec_strategy(depth=depth, sat=True))
    share = draw(st.integers(0, 3)) == 0
    if share:
        spec = specs.with_repeats(draw, spec)
    elif draw(st.integers(0, 4)) == 0:
        # some nodes are user-defined types that forward to the built-in (one kind reports the wrong-type error itself,
        # at the path it was handed)
        from .c16 import _wrap
        spec = _wrap(draw, spec, 0, "root")
    mode = draw(st.sampled_from(["near-multi", "near-multi", "near-multi", "multi", "multi", "near",
                                 "unrelated", "typed-zoo"]))
    try:
        if mode == "near-multi":
            v, _n = draw(values.near_multi(spec, draw(st.integers(2, 4))))
        elif mode == "multi":
            v = draw(values.conforming(spec))
            for _ in range(draw(st.integers(1, 4))):
                v, _p = draw(values.perturb(v, min_depth=1))
        elif mode == "near":
            v, _a = draw(values.near(spec))
        elif mode == "typed-zoo":
            # objects that nearly pass a node's type guard, placed at that node (Decimal / Fraction / a whole number at a
            # float position, bool at an int position, datetime at a date position ...)
            v, _n = draw(values.typed_zoo(spec, draw(st.integers(1, 3))))
        else:
            v = draw(st.one_of(values.junk, values.zoo))
    except values.Unsat:
        v = draw(values.junk)
    return {"spec": spec, "value": v, "share": share}


def strategy(tier):
    return _case()


def exhaustive(tier):
    yield from _exhaustive_floats()
    # numbers of another kind at constrained int / float positions: whatever the verdict, an error must report the very
    # object that sits at its path
    from ..codec import Zoo
    nodes = [{"t": "float", "min": 2.0, "order": ["min"]}, {"t": "float", "max": 1.0, "order": ["max"]}, {"t": "float", "value": 0.0},
             {"t": "float", "value": 0.5, "precision": 1, "order": ["precision"]}, {"t": "int", "min": 5, "order": ["min"]},
             {"t": "int", "value": 3}, {"t": "any", "alts": [{"t": "float", "max": 1.0, "order": ["max"]}, {"t": "none"}]}]
    others = [Zoo("decimal"), Zoo("fraction"), Zoo("int_2_53_1"), Zoo("true"), Zoo("float_subclass"), Zoo("int_subclass"), 1, 1.5, 7.0]
    for n in nodes:
        for x in others:
            yield {"spec": n, "value": x}
            yield {"spec": {"t": "list", "form": "typed", "elem": n}, "value": [x, x]}
            yield {"spec": {"t": "dict", "entries": [{"key": "k", "opt": False, "spec": n}], "relaxed": False}, "value": {"k": x}}
    # required keys of every odd kind (falsy ones, None, tuples, braces), missing at the root and one level down
    for key in (None, 0, "", False, (), "{x}", "a.b", 2.5, b""):
        d = {"t": "dict", "entries": [{"key": key, "opt": False, "spec": {"t": "int"}},
                                      {"key": "other", "opt": True, "spec": {"t": "int"}}], "relaxed": False}
        yield {"spec": d, "value": {}}
        yield {"spec": d, "value": {"other": "x"}}
        yield {"spec": {"t": "list", "form": "typed", "elem": d}, "value": [{}, {key: 1}, {key: "bad"}]}
        yield {"spec": {"t": "dict", "entries": [{"key": "rows", "opt": False, "spec": d}], "relaxed": False},
               "value": {"rows": {}}}
    # missing elements at every index of a short exact list
    for n in (1, 2, 3):
        el = {"t": "list", "form": "exact", "elems": [{"t": "int"}] * n}
        for k in range(n):
            yield {"spec": el, "value": [1] * k}
            yield {"spec": {"t": "dict", "entries": [{"key": None, "opt": False, "spec": el}], "relaxed": False},
                   "value": {None: [1] * k}}


def _exhaustive_floats():
    """float nodes with a fixed value, a precision and a bound inside the value's rounding bucket, against
    numbers that equal the value at that precision: alone, as a list element and as a dict member"""
    for p in (1, 2, 3):
        unit = 10.0 ** -p
        for v in (1.04, -1.04, 0.05, 2.675, 1.25, 0.96):
            rv = round(v, p)
            for bound in ("min", "max", None):
                node = {"t": "float", "value": v, "precision": p, "order": ["precision"]}
                if bound == "min":
                    node["min"] = (min(rv, v) + v) / 2 if rv < v else v - unit
                    node["order"] = ["min", "precision"]
                elif bound == "max":
                    node["max"] = (max(rv, v) + v) / 2 if rv > v else v + unit
                    node["order"] = ["precision", "max"]
                for w in (v, rv, v + 0.3 * unit, v - 0.3 * unit, v + 0.04 * unit, v - 0.04 * unit, v + 2 * unit):
                    yield {"spec": node, "value": w}
                    yield {"spec": {"t": "list", "form": "typed", "elem": node}, "value": [w, v]}
                    yield {"spec": {"t": "dict", "entries": [{"key": "x", "opt": False, "spec": node}],
                                    "relaxed": False}, "value": {"x": w}}


# ---------------------------------------------------------------------------------------------
def _ops(path):
    return list(path)


def _operand(op):
    return op._operand


def _render(ops):
    return "_" + "".join(f"[{_operand(o)!r}]" for o in ops)


def _resolve(v, ops):
    for o in ops:
        v = v[_operand(o)]
    return v


def _expand(c):
    """resolve alias/custom/any/derived wrappers to the set of concrete candidate specs"""
    t = c["t"]
    if t in ("alias", "custom"):
        return _expand(c["spec"])
    if t == "any":
        out = [c]
        for a in c.get("alts", []):
            out += _expand(a)
        return out
    if t == "or":
        return [c] + _expand(c["a"]) + _expand(c["b"])
    return [c]


def _step(c, key):
    t = c["t"]
    if t == "list":
        if c["form"] == "typed":
            return [c["elem"]]
        return list(c.get("elems", []))
    if t == "dict":
        return [e["spec"] for e in c.get("entries", []) if values._key_in(key, [e["key"]])]
    return []


def _candidates(spec, ops):
    cands = _expand(spec)
    for o in ops:
        nxt = []
        for c in cands:
            for s in _step(c, _operand(o)):
                nxt += _expand(s)
        cands = nxt
    return cands


def _lenparam(c, kind):
    lf = c.get("len")
    if not lf:
        return []
    if kind == "eq":
        return [lf[1]] if lf[0] == "eq" else []
    if kind == "min":
        return [lf[1]] if lf[0] in ("min", "range") else []
    return [lf[1]] if lf[0] == "max" else ([lf[2]] if lf[0] == "range" else [])


def _same_val(a, b):
    return type(a) is type(b) and (a == b or (a != a and b != b))


def check_error(e, root, spec, who):
    from d42.validation import Formatter
    name = type(e).__name__.replace("ValidationError", "")
    ops = _ops(e.path)
    # (1) location
    try:
        sub = _resolve(root, ops)
    except Exception as ex:  # noqa
        raise Violation("path-does-not-resolve", f"{who}: {e!r}: path {_render(ops)} on {root!r}: {ex!r}")
    act = e.actual_value
    if isinstance(sub, (list, dict, str, bytes, tuple, set)) or type(sub).__module__ != "builtins":
        located = act is sub
    else:
        located = act is sub or _same_val(act, sub)
    if not located:
        raise Violation("path-points-elsewhere",
                        f"{who}: {e!r}: path {_render(ops)} leads to {sub!r}, error reports {act!r}")
    # (2) truth
    try:
        truth = _truth(name, e, sub)
    except Exception as ex:  # noqa
        raise Violation("error-not-checkable", f"{who}: {e!r} on {sub!r}: {ex!r}")
    if not truth:
        raise Violation("false-error", f"{who}: {e!r} states something untrue of {sub!r}")
    # (3) provenance
    cands = _candidates(spec, ops)
    if not any(_declared(name, e, c, sub) for c in cands):
        raise Violation("error-parameter-not-declared",
                        f"{who}: {e!r}: no sub-schema reachable at {_render(ops)} declares this constraint "
                        f"(candidates: {cands!r})")
    # (4) message
    try:
        msg = e.format(Formatter())
    except Exception as ex:  # noqa
        raise Violation("format-raises", f"{who}: {e!r}.format raised {ex!r}")
    if not isinstance(msg, str) or not msg.strip():
        raise Violation("empty-message", f"{who}: {e!r} renders to {msg!r}")
    # rendering is reporting, not editing: the error still points where it pointed, and renders the same again
    if [_operand(o) for o in _ops(e.path)] != [_operand(o) for o in ops] or e.actual_value is not act:
        raise Violation("error-changed-by-formatting", f"{who}: after format() the error reads {e!r}, "
                                                       f"its path was {_render(ops)}")
    if e.format(Formatter()) != msg:
        raise Violation("error-changed-by-formatting", f"{who}: {e!r} renders differently the second time")
    if name == "MissingKey":
        want = _render(ops) + f"[{e.missing_key!r}]"
    elif name == "MissingElement":
        want = _render(ops) + f"[{e.index!r}]"
    else:
        want = _render(ops) if ops else None      # the path text only; the wording around it is free
    if want is not None and want not in msg:
        raise Violation("message-without-path", f"{who}: message {msg!r} does not name {want!r}")
    if want is not None:
        # a formatter with another root name renders the same path below that root
        msg2 = e.format(Formatter("payload"))
        want2 = "payload" + want[1:]
        if want2 not in msg2:
            raise Violation("message-without-path", f"{who}: Formatter('payload') message {msg2!r} does not name {want2!r}")
    return name, len(ops)


def _truth(name, e, sub):
    from d42 import validate
    if name == "Type":
        return not isinstance(sub, e.expected_type)
    if name == "Value":
        return bool(sub != e.expected_value)
    if name == "MinValue":
        return sub < e.min_value
    if name == "MaxValue":
        return sub > e.max_value
    if name == "Length":
        return len(sub) != e.length
    if name == "MinLength":
        return len(sub) < e.min_length
    if name == "MaxLength":
        return len(sub) > e.max_length
    if name == "Alphabet":
        return any(ch not in e.alphabet for ch in sub)
    if name == "Substr":
        return e.substr not in sub
    if name == "Regex":
        return re.search(e.pattern, sub) is None
    if name == "MissingElement":
        return isinstance(sub, list) and e.index >= len(sub)
    if name == "ExtraElement":
        return isinstance(sub, list) and 0 <= e.index < len(sub)
    if name == "MissingKey":
        return isinstance(sub, dict) and e.missing_key not in sub
    if name == "ExtraKey":
        return isinstance(sub, dict) and e.extra_key in sub
    if name == "SchemaMismatch":
        return all(validate(s, sub).has_errors() for s in e.expected_schemas)
    if name == "InvalidUUIDVersion":
        return sub.version == e.actual_version and e.actual_version != e.expected_version
    raise ValueError(f"unknown error kind {name}")


def _declared(name, e, c, sub):
    t = c["t"]
    if name == "Type":
        return t in PYTYPE and e.expected_type is PYTYPE[t]
    if name == "Value":
        return "value" in c and _same_val(c["value"], e.expected_value)
    if name == "MinValue":
        return "min" in c and _same_val(c["min"], e.min_value)
    if name == "MaxValue":
        return "max" in c and _same_val(c["max"], e.max_value)
    if name == "Length":
        return e.length in _lenparam(c, "eq")
    if name == "MinLength":
        return e.min_length in _lenparam(c, "min")
    if name == "MaxLength":
        return e.max_length in _lenparam(c, "max")
    if name == "Alphabet":
        return c.get("alphabet") == e.alphabet
    if name == "Substr":
        return c.get("substr") == e.substr
    if name == "Regex":
        return c.get("pattern") == e.pattern
    if name == "MissingElement":
        return t == "list" and "elems" in c and e.index < len(c["elems"]) + (len(sub) if c["form"] in ("tail", "contains") else 0)
    if name == "ExtraElement":
        return t == "list" and c.get("form") == "exact" and e.index >= len(c["elems"])
    if name == "MissingKey":
        return t == "dict" and any(values._key_in(e.missing_key, [x["key"]]) and not x["opt"]
                                   for x in c.get("entries", []))
    if name == "ExtraKey":
        return t == "dict" and "entries" in c and not c.get("relaxed") and \
            not values._key_in(e.extra_key, [x["key"] for x in c["entries"]])
    if name == "SchemaMismatch":
        if t == "any" and "alts" in c:
            want = []
            for a in c["alts"]:
                want += [canon.canon(x) for x in _flat(specs.build(a))]
            return [canon.canon(s) for s in e.expected_schemas] == want
        if t == "or":
            want = [canon.canon(x) for x in _flat(specs.build(c))]
            return [canon.canon(s) for s in e.expected_schemas] == want
        return False
    if name == "InvalidUUIDVersion":
        return t == "uuid4" and e.expected_version == 4
    return False


def _flat(s):
    from d42.declaration.types import AnySchema
    from niltype import Nil
    if isinstance(s, AnySchema) and s.props.types is not Nil:
        out = []
        for x in s.props.types:
            out += _flat(x)
        return out
    return [s]


# ---------------------------------------------------------------------------------------------
def _sig(e, prefix=()):
    """hashable signature of an error: kind, rendered path, parameters"""
    d = dict(e.__dict__)
    ops = [_operand(o) for o in _ops(d.pop("path"))]
    act = d.pop("actual_value")
    params = tuple(sorted((k, _psig(v)) for k, v in d.items()))
    return (type(e).__name__, tuple(repr(x) for x in list(prefix) + ops), params, _psig(act))


def _psig(v):
    from d42.declaration import Schema
    if isinstance(v, Schema):
        return ("schema", canon.canon(v))
    if isinstance(v, tuple) and v and all(isinstance(x, Schema) for x in v):
        return ("schemas", tuple(canon.canon(x) for x in v))
    if isinstance(v, type):
        return ("type", v.__name__)
    if isinstance(v, (list, dict)) and len(v) > 50:
        # (a 1001-key dict reported by 1001 errors: one structural signature per object, not per error)
        key = id(v)
        hit = _BIG.get(key)
        if hit is None or hit[0] is not v:
            if len(_BIG) > 8:
                _BIG.clear()
            try:
                hit = _BIG[key] = (v, ("v", canon.atom(v)))
            except Exception:  # noqa
                hit = _BIG[key] = (v, ("id", id(v)))
        return hit[1]
    try:
        return ("v", canon.atom(v))
    except Exception:  # noqa
        return ("id", id(v))


_BIG = {}


def _expected_composition(spec, S, v):
    """-> Counter of error signatures predicted from member validations, or None if not applicable"""
    from d42 import validate
    t = spec["t"]
    if t == "alias":
        return collections.Counter(_sig(e) for e in validate(S.props.type, v).get_errors())
    if t == "list" and type(v) is list:
        from ..model import _len_ok
        if not _len_ok(spec.get("len"), len(v)):
            return None
        out = collections.Counter()
        if spec["form"] == "typed":
            member = S.props.type
            for i, x in enumerate(v):
                out.update(_sig(e, (i,)) for e in validate(member, x).get_errors())
            return out
        if spec["form"] == "exact":
            els = S.props.elements
            for i, m in enumerate(els):
                if i >= len(v):
                    out[("MissingElementValidationError", (), (("index", ("v", canon.atom(i))),),
                         _psig(v))] += 1
                    break
                out.update(_sig(e, (i,)) for e in validate(m, v[i]).get_errors())
            for i in range(len(els), len(v)):
                out[("ExtraElementValidationError", (), (("index", ("v", canon.atom(i))),), _psig(v))] += 1
            return out
        return None
    if t == "dict" and type(v) is dict and "entries" in spec:
        out = collections.Counter()
        for e_ in spec["entries"]:
            k = e_["key"]
            if k in v:
                member = S.props.keys[k][0]
                out.update(_sig(e, (k,)) for e in validate(member, v[k]).get_errors())
            elif not e_["opt"]:
                out[("MissingKeyValidationError", (), (("missing_key", ("v", canon.atom(k))),), _psig(v))] += 1
        if not spec.get("relaxed"):
            declared = [e_["key"] for e_ in spec["entries"]]
            for k in v:
                if k not in declared:
                    out[("ExtraKeyValidationError", (), (("extra_key", _psig(k)),), _psig(v))] += 1
        return out
    return None


def _with_placeholders(v, where):
    """copy of v with `...` added as first / last item of every list (None if v holds no list)"""
    found = [False]

    def walk(x):
        if isinstance(x, list):
            found[0] = True
            inner = [walk(i) for i in x]
            return ([...] + inner) if where == "first" else (inner + [...])
        if type(x) is dict:
            return {k: walk(i) for k, i in x.items()}
        return x
    out = walk(v)
    return out if found[0] else None


def _siblings(root, ops):
    if not ops:
        return 0
    parent = _resolve(root, ops[:-1])
    return len(parent) if isinstance(parent, (list, dict)) else 0


def check(case, ctx):
    from d42 import validate
    from d42.declaration import DeclarationError
    from d42.substitution import SubstitutorValidator
    spec = case["spec"]
    try:
        S = specs.build(spec, share={} if case.get("share") else None)
    except DeclarationError as e:
        ctx.skip_undeclarable(None, e)
        return
    v = values.realize(case["value"])
    try:
        errors = validate(S, v).get_errors()
    except Exception:  # noqa  (totality is C08's business)
        ctx.label("validate-raised(C08)")
        return
    nontrivial = False
    for e in errors:
        ops_before = _ops(e.path)
        name, depth = check_error(e, v, spec, "validate")
        ctx.label(f"kind:{name}@{'root' if depth == 0 else 'nested'}")
        if depth >= 1 and _siblings(v, ops_before) >= 2:
            nontrivial = True
    # the texts the public entry points hand out carry every error's own rendering, unabridged and in order
    if errors:
        from d42 import ValidationException, validate_or_fail
        from d42.validation import Formatter, format_result
        rendered = [e.format(Formatter()) for e in errors]
        texts = {"format_result": "\n".join(format_result(validate(S, v)))}
        try:
            validate_or_fail(S, v)
            raise Violation("validate-or-fail-swallowed", f"validate_or_fail({S!r}, {v!r}) returned although validate reports {errors!r}")
        except ValidationException as ex:
            texts["validate_or_fail"] = str(ex)
        for what, text in texts.items():
            pos = 0
            for m in rendered:
                i = text.find(m, pos)
                if i < 0:
                    raise Violation("message-without-path", f"{what}: {text!r} lacks (in order) the rendering {m!r}")
                pos = i + len(m)
    # (5) compositionality / no leakage between siblings
    want = _expected_composition(spec, S, v)
    if want is not None:
        got = collections.Counter(_sig(e) for e in errors)
        if got != want:
            extra = list((got - want).elements())[:3]
            missing = list((want - got).elements())[:3]
            raise Violation("errors-not-compositional",
                            f"validate({S!r}, {v!r}): not predicted by the members: {extra!r}; "
                            f"predicted but absent: {missing!r}")
        ctx.label("composition-checked")
    # the lenient validator used by substitution
    if not values.has_zoo(case["value"]):
        try:
            serrors = S.__accept__(SubstitutorValidator(), value=v).get_errors()
        except Exception:  # noqa
            serrors = []
            ctx.label("substitution-validator-raised")
        for e in serrors:
            name, depth = check_error(e, v, spec, "SubstitutorValidator")
            ctx.label(f"subst-kind:{name}@{'root' if depth == 0 else 'nested'}")
        # the same value with `...` placeholders at the ends of its lists (what substitution accepts):
        # the remaining errors must still point at the elements they talk about
        for where in ("first", "last"):
            vp = _with_placeholders(v, where)
            if vp is None:
                break
            try:
                perrors = S.__accept__(SubstitutorValidator(), value=vp).get_errors()
            except Exception:  # noqa
                ctx.label("substitution-validator-raised")
                continue
            for e in perrors:
                check_error(e, vp, spec, f"SubstitutorValidator (value with `...` {where})")
            ctx.label("subst-placeholders-checked")
    ctx.label("errors:%s" % ("0" if not errors else "1" if len(errors) == 1 else "2+"))
    if nontrivial:
        ctx.mark_nontrivial(case, sample_class=(spec["t"], len(errors) > 1))


KINDS = ["Type", "Value", "MinValue", "MaxValue", "Length", "MinLength", "MaxLength", "Alphabet", "Substr",
         "Regex", "MissingElement", "ExtraElement", "MissingKey", "ExtraKey", "SchemaMismatch",
         "InvalidUUIDVersion"]


def require(ctx, tier):
    missing = [f"kind:{k}@{w}" for k in KINDS for w in ("root", "nested")
               if not ctx.labels.get(f"kind:{k}@{w}")]
    allowed = 6 if tier == "quick" else 0
    if len(missing) > allowed:
        raise HarnessError(f"C03 error-kind x depth table has empty cells: {missing}")
    if not ctx.labels.get("composition-checked") or not ctx.labels.get("errors:2+"):
        raise HarnessError("C03 never checked composition / multiple simultaneous errors")


# thorough tier: libFuzzer (atheris) also drives this strategy with coverage feedback from d42
COVERAGE_GUIDED = {"runs": 60000, "seconds": 120}

MANIFEST = {
    "text": "Generated-input search biased to several simultaneous errors in sibling members: every "
            "returned error is checked for location (path resolves to the reported object), truth "
            "(recomputed from the error's own fields), provenance (parameter declared at that "
            "position), message (path rendered) and compositionality (container errors = prefixed "
            "member errors). The evidence carries the 16 error kinds x {root, nested} hit table.",
    "design_ref": "DESIGN.md section 3, C03",
    "note": "trusts th path resolution semantics (item access) and our spec walk for provenance; order of errors not asserted",
    "technique": "property-based testing (Hypothesis), per-error validity predicate + metamorphic compositionality oracle",
}
