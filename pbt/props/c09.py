"""C09 - regex generation yields a full match or refuses loudly.

case = {"pattern": recipe (pbt.regexgen), "max_repeat": n, "rng": [selectors], "seed": k|None}
Oracle: re.fullmatch (CPython's own matcher) on the generated string; for patterns holding a
listed unsupported construct: an exception, or a string that fully matches.
"""
import re
import signal

from hypothesis import strategies as st

from .. import regexgen, rng, safematch
from ..core import HarnessError, Violation

ID = "C09"
LEVEL = "exploration"
RULE = ("exhaustive part: every explicit repeat count 0..130 as {k}, {0,k}, {k/2,k}? and {k,}, 15 negated classes whose ranges touch "
        "the ends of the generator's alphabet (600 draws each), all through RegexGenerator and through fake(); ~45 hand-picked corner patterns of the supported grammar (repeat counts up to 70000, lazy "
        "bounds above max_repeat, ranges inside / across the surrogate block, ranges ending at '~' or beyond, classes "
        "mixing every item kind, empty alternatives) x 4 RNG scripts. Generated part: Hypothesis draws a pattern recipe "
        "from the supported grammar of C09 (literals incl. escapes and non-ASCII, ., \\d, \\w, classes with literals / "
        "ranges / \\d / \\w / negation with a non-empty printable complement, capturing / non-capturing / named groups, "
        "alternation, greedy+lazy quantifiers * + ? {n} {n,} {n,m} incl. explicit counts and open-ended minimum above max_repeat, ^ first / $ "
        "last; depth<=4, at most three open-ended quantifiers), or such a pattern with one listed unsupported construct "
        "embedded at a drawn position; max_repeat in {0,1,3,32}; every RNG outcome is a scripted selector (0.0 = lowest, "
        "1.0 = highest outcome of the draw) or, in seeded mode, the real stdlib RNG; a third of the cases go on to "
        "generate 3-8 further negated-class patterns, three rounds, with the same generator object; some use consistent "
        "custom alphabets. distinct = canonical JSON of the case; non-trivial = at least 2 nested constructs (group / "
        "quantifier / alternation / class) in the pattern and a successful generation or refusal")
ASSUMPTIONS = [
    "regex semantics are CPython's re module (re.fullmatch is the matcher of record)",
    "negated classes in recipes always leave a printable-ASCII character (the generator's alphabet)",
    "generated recipes use no inline flags, no \\b, no mid-pattern anchors (not listed as supported or unsupported); six corner patterns "
    "with flags scoped to a group are included because the generator accepts them today",
]
BUDGET = {"quick": (1500, 4), "thorough": (25000, 16)}


def strategy(tier):
    negs = st.sampled_from(["[^a-z]{20}", "[^\\d!-/]{20}", "[^abc]x[^\\w]{9}", "[^0-9a-f]{12}", "[^ -@]{20}",
                            "[^\\d]{20}", "[^A-Z0-9]{20}", "x[^a-zA-Z]{20}y", "[^\\[-~]{20}", "[^\\w]{20}"])
    sup = st.fixed_dictionaries({
        "pattern": regexgen.pattern_strategy(4),
        "max_repeat": st.sampled_from([0, 1, 3, 32]),
        "rng": rng.script_strategy(60),
        "seed": st.one_of(st.none(), st.none(), st.integers(0, 2 ** 32)),
        # further patterns generated afterwards by the *same* generator object (state kept between calls)
        "more": st.one_of(st.just([]), st.just([]), st.just([]), st.lists(negs, min_size=3, max_size=8)),
    })
    uns = st.fixed_dictionaries({
        "pattern": regexgen.unsupported_pattern_strategy(3),
        "max_repeat": st.sampled_from([0, 1, 3, 32]),
        "rng": rng.script_strategy(30),
        "seed": st.one_of(st.none(), st.integers(0, 2 ** 32)),
    })
    return st.one_of(sup, sup, sup, uns)


# hand-picked corner patterns (supported grammar), each generated with the extreme and a middle RNG
# outcome of every draw: very large and nested repeat counts, lazy bounds above max_repeat, ranges inside /
# across the surrogate block and up to the last code point, classes mixing every item kind
CORNERS = [
    "(?:ab){40000}", "a{70000}", "(?:[a-z]{200}){400}", "(?:ab){30000}", "(?:(?:(?:a+)+)+)+", "a{33}?", "a{40,}?",
    "[0-9a-f]{36,40}?", "(?:\\d\\w){35,}?", ".{0,64}?", "(?:a|bc|def){100}", "(?:[ab]{2}){0,64}",
    "[\ud800-\udbff]", "[\udc00-\udfff]{3}", "[0-9\ud900-\ud9ff]", "[\u0100-\uffff]{5}", "[\ud000-\ud900]{5}",
    "[\udf00-\ue100]{5}", "[\U00010000-\U0010ffff]{3}", "[^\x21-\x7e]{6}", "[^!-~]", "[^a-\uffff]{4}", "[^\\w\\d]{4}",
    "[^a-f\\d]{8}", "[^\\da-f]{8}", "x[^y]z", "[\\d\\w-]{6}", "[a\\-z]{4}", "[]a]{3}", "[\\]\\^]{3}", "[-a]{3}",
    "(?P<n>a)(?:b)(c){2}", "^$", "^a*$", "(?:)", "(?:|a)", "a|", "\\.\\\\\\n\\t", "\\$\\^\\*\\+\\?", "é{3}ß?€+",
    "(?s:<.>)=.", "(?i:ab)c.", "(?s:.)(?-s:.).", "x(?s:.+)y.{3}", "(?a:\\w)x.", "(?s:.){40}.{40}",
    "(?:a{2}){3}{2}" if False else "(?:(?:a{2}){3}){2}", "a{0}", "a{0,0}b", "(?:a?){30}", "\\d{1,2}-\\w{0,3}_.{2}",
]


# negated classes whose ranges touch the first / last letter of the generator's alphabet (' ' and '~') or lie
# entirely outside it; generated 600 times over so that every letter of the complement is drawn
MIXED_CLASSES = ["[\\da-fA-F]", "[a-f\\dA-F]", "[a-fA-F\\d]", "[\\wa-c.-]", "[\\d!-#x-z]", "[0-4\\d6-9A-C]", "[\\w\u0430-\u0433\u0451x-z]"]
EDGE_CLASSES = ["[^\\x00-z]", "[^\\x00-Z_-z]", "[^\\x01-y]", "[^\\x00-}]", "[^\\x00- ]", "[^\t- ]", "[^ - ]", "[^~-\\x7f]", "[^~-~]", "[^}-\\x80]", "[^\\x00-!]", "[^ -!]", "[^\\x7f-\\xff]",
                "[^\\x00-\\x1f]", "[^ ~]", "[^!-}]", "[^\\d -/]", "[^\\w~]", "[^a-zA-Z ]"]


def exhaustive(tier):
    for p in CORNERS:
        for script in ([], [0.0] * 64, [1.0] * 64, [0.5, 0.0, 1.0] * 20):
            yield {"text": p, "max_repeat": 32, "seed": None, "rng": script, "corner": True}
        yield {"text": p, "max_repeat": 32, "seed": 7, "rng": [], "corner": True}
    for c in EDGE_CLASSES + MIXED_CLASSES:
        for seed in (1, 2):
            yield {"text": c + "{600}", "max_repeat": 32, "seed": seed, "rng": [], "corner": True}
    # generators of one's own with letters outside printable ASCII, negated ranges over them
    for p in ("[^\u0430-\u044f]{40}", "[^\\x00-\\x1f]{40}", "[^\u0431-\u0434\\d]{40}", "[^a-z\u0430]{40}", "x[^\\t]y", "[^\u0430\u0431\u0432]{40}"):
        for seed in (1, 2):
            yield {"text": p, "max_repeat": 32, "seed": seed, "rng": [], "corner": True,
                   "alphabet": {"letters": "\u0430\u0431\u0432\u0433\u0434\u04351C2\t xyz", "digits": "12", "word": "\u0430\u0431\u0432\u0433\u0434\u04351C2xyz"}}
    # every explicit repeat count 0..130 (the generator's own limit, its multiples and sre's internal opcode numbers
    # lie in that range), as {k}, {0,k} and {k,}, greedy and lazy, through RegexGenerator and through fake()
    for k in range(0, 131):
        for p in ("x{%d}" % k, "x{0,%d}" % k, "(?:ab){%d,%d}?" % (k // 2, k), "^[a-c]{%d,}$" % k):
            for script in ([1.0] * 8, [0.0] * 8):
                yield {"text": p, "max_repeat": 32, "seed": None, "rng": script, "corner": True}
            yield {"text": p, "max_repeat": 32, "seed": k, "rng": [], "corner": True}


class _Timeout(Exception):
    pass


def _alarm(signum, frame):
    raise _Timeout()


def _fullmatch(p, s, secs=5):
    old = signal.signal(signal.SIGALRM, _alarm)
    signal.alarm(secs)
    try:
        return re.fullmatch(p, s) is not None
    finally:
        signal.alarm(0)
        signal.signal(signal.SIGALRM, old)


def _check_text(case, ctx):
    """replay of a finding of the atheris campaign: raw pattern text, seeded real RNG"""
    from d42.generation import Random, RegexGenerator
    from .. import fuzz_c09
    p = case["text"]
    parsed = fuzz_c09.sre.parse(p)
    try:
        kind = fuzz_c09.classify(parsed)
    except fuzz_c09.Skip:
        if not case.get("corner"):
            return
        kind = "supported"      # the hand-picked corner patterns are within the supported grammar
    cm = rng.seeded(case["seed"]) if case.get("seed") is not None else rng.scripted(case.get("rng", []))
    with cm:
        try:
            s = RegexGenerator(Random(), max_repeat=case["max_repeat"], **({"alphabet": case["alphabet"]} if case.get("alphabet") else {})).generate(p)
        except Exception as e:  # noqa
            if kind == "unsupported":
                return
            raise Violation("supported-raises", f"generate({p!r}) raised {e!r}")
    ctx.label("corner-pattern")
    if len(p) > 3:
        ctx.mark_nontrivial(case, sample_class=("corner", p[:6]))
    if re.fullmatch(p, s) is None:
        raise Violation("nonmatch" if kind == "supported" else "unsupported-nonmatch",
                        f"generate({p!r}, max_repeat={case['max_repeat']}) = {s!r} does not fully match")
    if case.get("corner") and not case.get("alphabet"):
        # the same pattern through the public entry point (the library's own, module-level generator)
        from d42 import fake, schema
        cm = rng.seeded(case["seed"]) if case.get("seed") is not None else rng.scripted(case.get("rng", []))
        with cm:
            try:
                s2 = fake(schema.str.regex(p))
            except Exception as e:  # noqa
                raise Violation("fake-raises", f"fake(schema.str.regex({p!r})) raised {e!r}")
        if not isinstance(s2, str) or re.fullmatch(p, s2) is None:
            raise Violation("nonmatch", f"fake(schema.str.regex({p!r})) = {s2!r} does not fully match")


def check(case, ctx):
    from d42 import fake, schema, validate
    from d42.generation import Random, RegexGenerator

    if "text" in case:
        return _check_text(case, ctx)
    pat = case["pattern"]
    p = regexgen.render(pat)
    try:
        re.compile(p)
    except re.error as e:
        raise HarnessError(f"recipe renders to an invalid pattern {p!r}: {e}")
    unsup = pat.get("unsup")
    feats = regexgen.features(pat["body"])

    def run(fn):
        if case["seed"] is None:
            with rng.scripted(case["rng"]) as r:
                out = fn()
            return out, r
        with rng.seeded(case["seed"]):
            return fn(), None

    if len(case["rng"]) % 4 == 3 and "negated-class" not in feats and not case.get("more"):
        # custom alphabets, mutually consistent (every digit / word character of "letters" is in the
        # "digits" / "word" alphabet, so negated categories stay exact): the match must not depend on them
        gen = RegexGenerator(Random(), max_repeat=case["max_repeat"],
                             alphabet={"letters": "ab07!_ ~", "digits": "07", "word": "ab07_"})
        ctx.label("custom-alphabet")
    else:
        gen = RegexGenerator(Random(), max_repeat=case["max_repeat"])
    try:
        s, r = run(lambda: gen.generate(p))
    except Exception as e:  # noqa
        if unsup:
            ctx.label("unsupported:refused", "unsup:" + unsup)
            if regexgen.nesting(pat["body"]) >= 2:
                ctx.mark_nontrivial(case, sample_class=("unsup", unsup))
            return
        raise Violation("supported-raises", f"generate({p!r}) raised {e!r}")
    if not isinstance(s, str):
        raise Violation("not-a-string", f"generate({p!r}) returned {s!r}")
    # a quantifier inside a quantifier can make even a successful match astronomically slow, and a match in
    # the C engine cannot be interrupted: those are matched in a child process that can be killed
    # (... and so can several adjacent quantifiers with large counts: every pattern with two or more quantifiers goes there)
    risky = regexgen.rep_depth(pat["body"]) >= 2 or regexgen.count_reps(pat["body"]) >= 2
    try:
        ok = safematch.fullmatch(p, s) if risky and len(s) > 12 else _fullmatch(p, s)
    except _Timeout:
        ok = None
    if ok is None:
        ctx.label("inconclusive:backtracking")
        return
    if not ok:
        kind = "unsupported-nonmatch" if unsup else "nonmatch"
        raise Violation(kind, f"generate({p!r}, max_repeat={case['max_repeat']}) = {s!r} "
                              f"does not fully match")
    if unsup:
        ctx.label("unsupported:matched-anyway", "unsup:" + unsup)
        return

    # the same generator object serves further patterns: nothing may carry over from one call to the next
    for q in list(case.get("more", [])) * 3 + ([p] if case.get("more") and not unsup else []):
        try:
            re.compile(q)
        except re.error:
            continue
        try:
            with rng.seeded(len(q)):
                s2 = gen.generate(q)
        except Exception as e:  # noqa
            raise Violation("supported-raises", f"same generator, later call: generate({q!r}) raised {e!r} "
                                                f"(after {p!r})")
        try:
            ok2 = safematch.fullmatch(q, s2) if q is p and risky and len(s2) > 12 else _fullmatch(q, s2)
        except _Timeout:
            continue
        if ok2 is None:
            continue
        if not ok2:
            raise Violation("nonmatch-after-reuse", f"same generator object, after {p!r} ...: generate({q!r}) = "
                                                    f"{s2!r} does not fully match")
    if case.get("more"):
        ctx.label("generator-reused")

    # the schema-level statement: schema.str.regex(p) generates what its own validation accepts
    sch = schema.str.regex(p)
    try:
        v, _ = run(lambda: fake(sch))
    except Exception as e:  # noqa
        raise Violation("fake-raises", f"fake(schema.str.regex({p!r})) raised {e!r}")
    if risky and isinstance(v, str) and len(v) > 12 and safematch.search(p, v) is None:
        ctx.label("inconclusive:backtracking")
        return
    res = validate(sch, v)
    if res.has_errors():
        raise Violation("fake-invalid", f"fake(schema.str.regex({p!r})) = {v!r}: {res.get_errors()!r}")

    for f in sorted(feats):
        ctx.label("f:" + f)
    ctx.label(f"max_repeat={case['max_repeat']}", "mode:" + ("scripted" if r else "seeded"))
    if r is not None:
        if r.extremes:
            ctx.label("has-extreme-draw")
        ctx.label("draws>0" if r.draws else "draws=0")
    if pat.get("bol") or pat.get("eol"):
        ctx.label("anchored")
    if regexgen.nesting(pat["body"]) >= 2:
        ctx.mark_nontrivial(case, sample_class=tuple(sorted(feats))[:3])


def extra_engine(tier, seed, ctx):
    """Thorough tier: coverage-guided atheris campaigns over raw pattern text (empty corpus, and a
    corpus of the patterns found in the repository's own regex-generator tests)."""
    if tier != "thorough":
        return None
    import json
    import os
    import shutil
    import subprocess
    import sys
    import tempfile
    try:
        import atheris  # noqa: F401
    except ImportError:
        return {"engine": "atheris", "skipped": "atheris is not importable (setup.sh could not install it)"}
    repo = os.environ.get("D42_VERIF_REPO", "/repo")
    seeds = []
    try:
        src = open(os.path.join(repo, "tests", "generation", "test_regex_generator.py"), encoding="utf-8").read()
        seeds = sorted(set(re.findall(r'generate\(r"([^"]+)"\)', src)))
    except OSError:
        pass
    out = {"engine": "atheris", "campaigns": [], "failures": []}
    for name, corpus_seeds in (("empty-corpus", []), ("test-suite-corpus", seeds)):
        work = tempfile.mkdtemp(prefix="c09fuzz-")
        try:
            corpus = os.path.join(work, "corpus")
            os.makedirs(corpus)
            for i, p in enumerate(corpus_seeds):
                with open(os.path.join(corpus, f"seed{i}"), "wb") as fh:
                    fh.write(b"\x01" + p.encode("utf-8") + b"\x03\x07")
            res = os.path.join(work, "result.json")
            cmd = [sys.executable, "-W", "ignore", "-m", "pbt.fuzz_c09", res, corpus,
                   "-runs=400000", f"-seed={seed + 1}", "-max_total_time=150", "-max_len=96",
                   "-print_final_stats=0", "-verbosity=0"]
            try:
                p = subprocess.run(cmd, capture_output=True, text=True, timeout=400)
                code, err = p.returncode, p.stderr
            except subprocess.TimeoutExpired:
                code, err = None, "campaign killed after 400 s (an input that never returns from the matcher): inconclusive"
            data = json.load(open(res)) if os.path.exists(res) else {"stats": {}, "violation": None}
            camp = {"name": name, "seed_inputs": len(corpus_seeds), "exit": code, **data.get("stats", {})}
            out["campaigns"].append(camp)
            v = data.get("violation")
            if v:
                case = {"text": v["pattern"], "max_repeat": v["max_repeat"], "seed": v["seed"]}
                out["failures"].append((case, v["key"], v["detail"]))
            elif code not in (0,):
                camp["note"] = (err or "")[-300:]
        finally:
            shutil.rmtree(work, ignore_errors=True)
    ctx.evaluations += sum(c.get("execs", 0) for c in out["campaigns"])
    return out


def require(ctx, tier):
    need = ["f:cls", "f:negated-class", "f:alt", "f:grp-named", "f:lazy", "f:q-n,", "f:q-*",
            "f:open-ended-above-max-repeat", "unsupported:refused", "has-extreme-draw", "anchored",
            "mode:seeded", "mode:scripted"]
    for lab in need:
        if not ctx.labels.get(lab):
            raise HarnessError(f"C09 generator never produced class {lab!r}")


MANIFEST = {
    "text": "Generated-input search over regex programs x max_repeat x RNG outcomes (scripted "
            "extremes and real seeded RNG) with re.fullmatch as the oracle; the thorough tier adds a "
            "coverage-guided atheris campaign over raw pattern text. Finds non-matching output, "
            "unexpected exceptions on supported constructs and silent acceptance of unsupported ones "
            "within the explored grammar; no absence claim.",
    "design_ref": "DESIGN.md section 3, C09",
    "note": "trusts CPython re.fullmatch and sre parser; recipes are limited to the constructs the "
            "property lists; RNG is replaced at the random-module boundary inside d42.generation._random",
    "technique": "property-based testing (Hypothesis) with scripted RNG schedule; atheris fuzzing in thorough tier",
    "engine": "hypothesis+atheris",
}
