"""C19 - the v1->v2 migration rewrites imports and nothing else.

case = {"stmts": [stmt...], "nl": "\\n"|"\\r\\n", "final_nl": bool, "join": [bool...]}
stmt := ["from", module|None, level, names|"*", style, comment|None]
      | ["import", module, asname|None] | ["assign", name, text] | ["doc", text]
      | ["block", kind, [simple stmt...]] | ["comment", text] | ["blank"] | ["pass"]
Oracle (AST differential): every non-from-import statement is preserved (ast.dump, in order), and
every maximal run of consecutive from-imports binds the same (module', name', asname, level)
multiset, where ' applies the mapping to mapped names only.
The exhaustive part imports every target of the mapping table.
"""
import ast
import collections
import importlib
import os

from hypothesis import strategies as st

from ..core import HarnessError, Violation

ID = "C19"
LEVEL = "exploration"
RULE = ("exhaustive: every (module, name) target of the mapping table is imported, and a directory tree (nested "
        "packages, hidden and __pycache__ directories, a non-Python file, an unparsable file, CRLF) is migrated through "
        "migrate_v1_to_v2; generated: Hypothesis assembles Python modules from from-imports of mapped/unmapped modules "
        "with mapped / unmapped / mixed names (incl. names mapped only under another v1 module), aliases (also ones that contain the module's name), *, relative "
        "levels, single-line / parenthesised / multi-line-with-comments / backslash styles, plain imports, assignments "
        "whose string literals contain ; # form feeds and Unicode line separators, docstrings, def/if/try/class/with "
        "blocks with indented imports, comment and blank lines; layout joins simple statements with ';', uses \\n or "
        "\\r\\n and may omit the final newline. Every module must ast.parse. distinct = canonical JSON of the case; "
        "non-trivial = >=1 mapped top-level from-import and >=1 other statement")
ASSUMPTIONS = ["ast.parse / ast.dump (CPython) define statement identity; comments are not statements",
               "only modules that CPython parses are in the domain"]
BUDGET = {"quick": (1500, 4), "thorough": (25000, 16)}

MAPPED_MODULES = ["district42", "district42.errors", "district42.types", "district42.utils",
                  "district42.representor", "blahblah", "valera", "valera.errors", "revolt",
                  "revolt.errors"]
OTHER_MODULES = ["os", "typing", "district42.unknown", "pkg.sub", "d42", "valera.extra"]
ODD = ["\x0c", "\u2028", "\u2029", "\x85", "\x1c", "\x1d", "\x1e", "\x0b", ";", "#", " ; x = 2 # ", "é"]


def _mapping():
    from d42.migration.migrate_v1_to_v2 import mapping
    return mapping


FS_CASES = [
    {"fs": {"a.py": "from district42 import schema, optional\nx = 1\n",
            "pkg/b.py": "import os; from valera import validate as v; y = 2\r\n",
            "pkg/deep/c.py": "x = 'no imports here'\n",
            "pkg/deep/d.py": "from revolt import substitute\nfrom os import path\n",
            ".hidden/e.py": "from district42 import schema\n",
            "pkg/__pycache__/f.py": "from district42 import schema\n",
            "notes.txt": "from district42 import schema\n",
            "broken.py": "from district42 import (\n"}},
    {"fs": {"sub.py": "from district42.types import DictSchema, ListSchema as L\nfrom valera.errors import ValidationError\n"
                      "from revolt.errors import SubstitutionError\nfrom district42.utils import is_ellipsis\nx = DictSchema\n",
            "pkg/errs.py": "from district42.errors import DeclarationError\nfrom district42.representor import Representor\n",
            "pkg/top.py": "from blahblah import fake\nfrom valera import validate_or_fail\nfrom revolt import substitute\n"},
     "entry": "cli"},
    {"fs": {"sub.py": "from district42.types import DictSchema\nfrom valera.errors import ValidationError\n",
            "star.py": "from valera \\\n    import *\nfrom district42 import \\\n    schema\n"}},
]


def exhaustive(tier):
    for mod, names in _mapping().items():
        for name, (nm, nn) in names.items():
            yield {"target": [mod, name, nm, nn]}
    yield from FS_CASES


def _check_fs(case, ctx):
    """the directory walker of the CLI (d42 v1-to-v2 <dir>): .py files outside hidden / __pycache__
    directories are rewritten by the same rule, everything else is left byte-identical"""
    import contextlib
    import io
    import shutil
    import tempfile
    from d42.migration.migrate_v1_to_v2 import migrate_v1_to_v2
    mapping = _mapping()
    root = tempfile.mkdtemp(prefix="c19fs-")
    try:
        for rel, text in case["fs"].items():
            path = os.path.join(root, rel)
            os.makedirs(os.path.dirname(path), exist_ok=True)
            with open(path, "w", encoding="utf-8", newline="") as fh:
                fh.write(text)
        try:
            with contextlib.redirect_stdout(io.StringIO()):
                if case.get("entry") == "cli":
                    # the command line entry point: `d42 v1-to-v2 <dir>`
                    import sys as _sys
                    from d42._main import run
                    argv = _sys.argv
                    _sys.argv = ["d42", "v1-to-v2", root]
                    try:
                        run()
                    finally:
                        _sys.argv = argv
                else:
                    migrate_v1_to_v2(root)
        except (Exception, SystemExit) as e:  # noqa
            raise Violation("migrate-raises", f"migration raised {e!r} on {sorted(case['fs'])!r}")
        for rel, text in case["fs"].items():
            with open(os.path.join(root, rel), encoding="utf-8", newline="") as fh:
                now = fh.read()
            skip = not rel.endswith(".py") or any(part.startswith(".") or part == "__pycache__"
                                                  for part in rel.split("/")[:-1])
            try:
                ast.parse(text)
                parses = True
            except SyntaxError:
                parses = False
            if skip or not parses:
                if now != text:
                    raise Violation("untouchable-file-changed", f"{rel}: {text!r} became {now!r}")
                continue
            as_read = text.replace("\r\n", "\n").replace("\r", "\n")   # the tool reads in text mode
            if now in (text, as_read):
                oracle(as_read, None, mapping)
            else:
                oracle(as_read, now.replace("\r\n", "\n"), mapping)
    finally:
        shutil.rmtree(root, ignore_errors=True)
    ctx.label("directory-walk")
    ctx.mark_nontrivial(case, sample_class="fs")


# ---------------------------------------------------------------------------------------------
def strategy(tier):
    mapping = _mapping()
    ident = st.sampled_from(["foo", "Bar", "baz_1", "schema2", "x", "café", "ñ_1"])      # (identifiers may be non-ASCII)
    asname = st.one_of(st.none(), st.none(), st.sampled_from(["s", "alias_a", "_p", "sch", "é"]))
    odd_text = st.lists(st.one_of(st.sampled_from(ODD), st.sampled_from(["a", "b c", "1"])),
                        max_size=4).map("".join)

    @st.composite
    def from_stmt(draw, allow_multiline=True, force_mapped=False):
        kind = "mapped" if force_mapped else \
            draw(st.sampled_from(["mapped", "mapped", "mapped", "other", "relative", "v2"]))
        level = 0
        if kind == "v2":
            # an import the module already takes from the new package (half-migrated code): same names as the v1 ones
            targets = sorted({t for d in mapping.values() for t in d.values()})
            module, nm = draw(st.sampled_from(targets))
            more = [n for (m, n) in targets if m == module]
            names = [[n, None] for n in dict.fromkeys([nm] + draw(st.lists(st.sampled_from(more), max_size=2)))]
            return ["from", module, 0, names, draw(st.sampled_from(["line", "paren"])), None]
        if kind == "other":
            module = draw(st.sampled_from(OTHER_MODULES))
        else:
            module = draw(st.sampled_from(MAPPED_MODULES))
        if kind == "relative":
            level = draw(st.integers(1, 2))
            if draw(st.booleans()):
                module = None
        if draw(st.integers(0, 9)) == 0 and module is not None:
            names = "*"
        else:
            pool = list(mapping.get(module, {})) if module in mapping else []
            cands = st.sampled_from(pool) if pool else ident
            # names that are mapped, but only under a *different* v1 module, must stay where they are
            foreign = sorted({n for m, d in mapping.items() if m != module for n in d} - set(pool))
            raw = draw(st.lists(st.one_of(cands, cands, ident, st.sampled_from(foreign)), min_size=1, max_size=4))
            names, used = [], set()
            for i, n in enumerate(raw):
                a = draw(st.one_of(asname, asname, st.sampled_from(["$mod_", "_$mod", "$mod", "d42_", "$last_"])))
                if a is not None and "$" in a:
                    # hand-written aliases often carry the module's name: valera_validate, district42_schema ...
                    m = module or "pkg"
                    a = a.replace("$mod", m.replace(".", "_")).replace("$last", m.split(".")[-1])
                    a = a + n if a.endswith("_") else a
                elif a is not None:
                    a = f"{a}{i}"
                local = a or n
                if local in used:
                    continue
                used.add(local)
                names.append([n, a])
        styles = ["line", "line", "paren", "line-spaced"] + (["paren-multi", "backslash", "backslash-before-import"]
                                                             if allow_multiline else [])
        style = draw(st.sampled_from(["line", "line", "backslash-before-import"] if allow_multiline else ["line"])) \
            if names == "*" else draw(st.sampled_from(styles))
        comment = draw(st.one_of(st.none(), st.none(), odd_text))
        return ["from", module, level, names, style, comment]

    simple = st.one_of(
        from_stmt(), from_stmt(),
        st.tuples(st.just("import"), st.sampled_from(MAPPED_MODULES + OTHER_MODULES), asname).map(list),
        st.tuples(st.just("assign"), st.sampled_from(["x", "y", "schema"]), odd_text).map(list),
        st.just(["pass"]),
    )
    inner = st.one_of(
        from_stmt(allow_multiline=False),
        st.tuples(st.just("assign"), st.sampled_from(["x", "y"]), odd_text).map(list),
        st.just(["pass"]),
    )
    block = st.tuples(st.just("block"), st.sampled_from(["def", "if", "try", "class", "with"]),
                      st.lists(inner, min_size=1, max_size=3)).map(list)
    stmt = st.one_of(
        simple, simple, simple, block,
        st.tuples(st.just("doc"), odd_text).map(list),
        st.tuples(st.just("comment"), odd_text).map(list),
        st.just(["blank"]),
    )
    @st.composite
    def stmts(draw):
        body = draw(st.lists(stmt, min_size=1, max_size=7))
        if draw(st.integers(0, 4)) > 0:
            body.insert(draw(st.integers(0, len(body))), draw(from_stmt(force_mapped=True)))
        return body

    return st.fixed_dictionaries({
        "stmts": stmts(),
        "nl": st.sampled_from(["\n", "\n", "\r\n"]),
        "final_nl": st.booleans(),
        "join": st.lists(st.booleans(), min_size=8, max_size=8),
    })


# ---------------------------------------------------------------------------------------------
def _quote(text):
    out = text.replace("\\", "\\\\").replace("'", "\\'").replace("\n", "\\n").replace("\r", "\\r")
    return "'" + out + "'"


def _comment(text):
    return "  # " + text.replace("\n", " ").replace("\r", " ") if text is not None else ""


def _render_from(s, nl, indent=""):
    _, module, level, names, style, comment = s
    head = "from " + "." * level + (module or "") + " import "
    if names == "*":
        if style == "backslash-before-import":
            return [indent + "from " + "." * level + (module or "") + " \\", indent + "    import *" + _comment(comment)]
        return [indent + head + "*" + _comment(comment)]
    items = [n if a is None else f"{n} as {a}" for n, a in names]
    if style == "line":
        return [indent + head + ", ".join(items) + _comment(comment)]
    if style == "line-spaced":
        # column-aligned / tab-separated spelling of the same statement
        wide = "from   " + "." * level + (module or "") + " \t  import\t "
        return [indent + wide + " ,  ".join(it.replace(" as ", "  as\t") for it in items) + _comment(comment)]
    if style == "backslash-before-import":
        return [indent + "from " + "." * level + (module or "") + " \\", indent + "    import " + ", ".join(items) + _comment(comment)]
    if style == "paren":
        return [indent + head + "(" + ", ".join(items) + ")" + _comment(comment)]
    if style == "paren-multi":
        lines = [indent + head + "(" + _comment(comment)]
        for it in items:
            lines.append(indent + "    " + it + ",")
        lines.append(indent + ")")
        return lines
    lines = [indent + head + items[0] + (", \\" if len(items) > 1 else "")]
    for i, it in enumerate(items[1:]):
        last = i == len(items) - 2
        lines.append(indent + "    " + it + ("" if last else ", \\"))
    return lines


def _render_simple(s, nl, indent=""):
    k = s[0]
    if k == "from":
        return _render_from(s, nl, indent)
    if k == "import":
        return [indent + "import " + s[1] + (f" as {s[2]}" if s[2] else "")]
    if k == "assign":
        return [indent + f"{s[1]} = {_quote(s[2])}"]
    if k == "pass":
        return [indent + "pass"]
    raise ValueError(s)


def render(case):
    nl = case["nl"]
    lines = []
    prev_joinable = False
    for i, s in enumerate(case["stmts"]):
        k = s[0]
        if k in ("from", "import", "assign", "pass"):
            new = _render_simple(s, nl)
            has_comment = k == "from" and s[5] is not None
            join = case["join"][i % len(case["join"])]
            if prev_joinable and join and lines:
                lines[-1] = lines[-1] + "; " + new[0]
                lines.extend(new[1:])
            else:
                lines.extend(new)
            # a statement can take a ';' successor only if its last line carries no comment
            prev_joinable = not (has_comment and s[4] in ("line", "paren"))
            continue
        prev_joinable = False
        if k == "doc":
            body = s[1].replace("\\", "\\\\").replace('"""', "'''")
            lines.append('"""doc ' + body)
            lines.append("second line " + body + '"""')
        elif k == "comment":
            lines.append("# " + s[1].replace("\n", " ").replace("\r", " "))
        elif k == "blank":
            lines.append("")
        elif k == "block":
            kind = s[1]
            head = {"def": "def f():", "if": "if True:", "try": "try:", "class": "class K:",
                    "with": "with open('f') as fh:"}[kind]
            lines.append(head)
            for inner in s[2]:
                lines.extend(_render_simple(inner, nl, "    "))
            if kind == "try":
                lines.append("except ImportError:")
                lines.append("    pass")
        else:
            raise ValueError(s)
    src = nl.join(lines)
    if case["final_nl"]:
        src += nl
    return src


# ---------------------------------------------------------------------------------------------
def _normalise(body, mapping, apply_mapping):
    """[("stmt", dump) | ("imports", Counter{(module, name, asname, level)})] with adjacent
    from-import runs merged."""
    out = []
    for node in body:
        if isinstance(node, ast.ImportFrom):
            items = collections.Counter()
            for al in node.names:
                mod, name = node.module, al.name
                if apply_mapping and node.level == 0 and mod in mapping and name in mapping[mod]:
                    mod, name = mapping[mod][name]
                items[(mod, name, al.asname, node.level)] += 1
            if out and out[-1][0] == "imports":
                out[-1][1].update(items)
            else:
                out.append(("imports", items))
        else:
            out.append(("stmt", ast.dump(node)))
    return out


def oracle(src, out, mapping):
    """Raises Violation if `out` is not a faithful rewrite of `src`."""
    tree = ast.parse(src)
    mapped_present = any(
        isinstance(n, ast.ImportFrom) and n.level == 0 and n.module in mapping and
        any(a.name in mapping[n.module] for a in n.names) for n in tree.body)
    if out is None:
        if mapped_present:
            raise Violation("nothing-to-do-but-mapped-import",
                            f"rewrite_imports returned None for {src!r}")
        return mapped_present
    if not isinstance(out, str):
        raise Violation("not-a-string", repr(out))
    try:
        tree2 = ast.parse(out)
    except SyntaxError as e:
        raise Violation("output-not-python", f"{e!r}: {src!r} -> {out!r}")
    want = _normalise(tree.body, mapping, True)
    got = _normalise(tree2.body, mapping, False)
    if len(want) != len(got):
        raise Violation("statement-count", f"{src!r} -> {out!r}: {len(want)} statement groups "
                                           f"became {len(got)}")
    for i, (w, g) in enumerate(zip(want, got)):
        if w[0] != g[0]:
            raise Violation("statement-order", f"{src!r} -> {out!r}: group {i} {w[0]} became {g[0]}")
        if w[0] == "stmt" and w[1] != g[1]:
            raise Violation("statement-changed", f"{src!r} -> {out!r}: {w[1]} became {g[1]}")
        if w[0] == "imports" and w[1] != g[1]:
            raise Violation("imports-changed", f"{src!r} -> {out!r}: wanted {dict(w[1])!r}, "
                                               f"got {dict(g[1])!r}")
    return mapped_present


def classify(case, v):
    return v.key


def check(case, ctx):
    from d42.migration.migrate_v1_to_v2 import rewrite_imports
    mapping = _mapping()
    if "target" in case:
        mod, name, nm, nn = case["target"]
        try:
            m = importlib.import_module(nm)
            getattr(m, nn)
        except Exception as e:  # noqa
            raise Violation("target-not-importable", f"{mod}.{name} -> from {nm} import {nn}: {e!r}")
        if nn != name:
            ctx.label("renaming-entry")
        ctx.label("mapping-target")
        ctx.mark_nontrivial(case, sample_class="target")
        return
    if "fs" in case:
        return _check_fs(case, ctx)
    src = case["src"] if "src" in case else render(case)
    try:
        ast.parse(src)
    except (SyntaxError, ValueError) as e:
        ctx.label("skip:does-not-parse")
        if ctx.labels["skip:does-not-parse"] > 50 and \
                ctx.labels["skip:does-not-parse"] > 0.2 * ctx.evaluations:
            raise HarnessError(f"C19 generator emits too many unparsable modules, e.g. {src!r}: {e}")
        return
    try:
        out = rewrite_imports(src, mapping)
    except Exception as e:  # noqa
        raise Violation("rewriter-raises", f"rewrite_imports({src!r}) raised {e!r}")
    mapped = oracle(src, out, mapping)
    n_other = sum(1 for n in ast.parse(src).body if not isinstance(n, ast.ImportFrom))
    if "stmts" in case:
        kinds = [s[0] for s in case["stmts"]]
        styles = {s[4] for s in case["stmts"] if s[0] == "from"}
        for sty in styles:
            ctx.label("style:" + sty)
        if "; " in src and any(";" in ln and ln.lstrip().startswith(("from", "import", "x", "y", "pass", "schema"))
                               for ln in src.splitlines()):
            ctx.label("joined-with-semicolon")
        if case["nl"] == "\r\n":
            ctx.label("crlf")
        if not case["final_nl"]:
            ctx.label("no-final-newline")
        if any(ch in src for ch in ("\x0c", "\u2028", "\x85", "\x1c", "\x0b")):
            ctx.label("exotic-line-break-char")
        if "block" in kinds:
            ctx.label("has-block")
        if any(s[0] == "from" and s[3] == "*" for s in case["stmts"]):
            ctx.label("star")
        if any(s[0] == "from" and s[2] > 0 for s in case["stmts"]):
            ctx.label("relative")
    ctx.label("mapped-import" if mapped else "no-mapped-import",
              "returned-none" if out is None else "returned-text")
    if mapped and n_other >= 1:
        ctx.mark_nontrivial(case, sample_class=(len(case.get("stmts", [])), case.get("nl")))


def extra_engine(tier, seed, ctx):
    """Thorough tier: (1) the repository's own test modules, with their d42 imports mapped back to
    v1 names through the inverse table, as a realistic corpus; (2) an atheris campaign mutating
    source text from the generated corpus under the same AST-differential oracle."""
    if tier != "thorough":
        return None
    import json
    import os
    import shutil
    import subprocess
    import sys
    import tempfile
    from d42.migration.migrate_v1_to_v2 import rewrite_imports
    import hypothesis
    from hypothesis import HealthCheck, given, settings
    mapping = _mapping()
    out = {"engine": "realistic corpus + atheris", "failures": []}
    # ---- (1) realistic corpus -----------------------------------------------------------------
    inverse = {}
    for mod, names in mapping.items():
        for name, (nm, nn) in names.items():
            inverse.setdefault((nm, nn), (mod, name))
    repo = os.environ.get("D42_VERIF_REPO", "/repo")
    n_files = n_back = 0
    for root, _dirs, files in os.walk(os.path.join(repo, "tests")):
        for fn in sorted(files):
            if not fn.endswith(".py"):
                continue
            try:
                src = open(os.path.join(root, fn), encoding="utf-8").read()
                tree = ast.parse(src)
            except (OSError, SyntaxError):
                continue
            lines = src.splitlines(keepends=True)
            changed = False
            for node in reversed(tree.body):
                if isinstance(node, ast.ImportFrom) and node.level == 0 and node.lineno == node.end_lineno \
                        and all((node.module, a.name) in inverse for a in node.names):
                    mods = {inverse[(node.module, a.name)][0] for a in node.names}
                    if len(mods) == 1:
                        names = ", ".join(a.name + (f" as {a.asname}" if a.asname else "") for a in node.names)
                        lines[node.lineno - 1] = f"from {mods.pop()} import {names}\n"
                        changed = True
            if not changed:
                continue
            v1 = "".join(lines)
            n_files += 1
            ctx.evaluations += 1
            try:
                res = rewrite_imports(v1, mapping)
                if oracle(v1, res, mapping):
                    n_back += 1
            except Violation as v:
                out["failures"].append(({"src": v1}, v.key, v.detail))
                break
            except Exception as e:  # noqa
                out["failures"].append(({"src": v1}, "rewriter-raises", repr(e)))
                break
    out["realistic_corpus"] = {"files_mapped_back_to_v1": n_files, "with_mapped_import": n_back}
    if out["failures"]:
        return out
    # ---- (2) atheris over mutated generated sources --------------------------------------------------
    try:
        import atheris  # noqa: F401
    except ImportError:
        out["atheris"] = "skipped: not importable"
        return out
    work = tempfile.mkdtemp(prefix="c19fuzz-")
    try:
        corpus = os.path.join(work, "corpus")
        os.makedirs(corpus)
        texts = []

        @hypothesis.seed(seed)
        @settings(max_examples=300, database=None, deadline=None, suppress_health_check=list(HealthCheck))
        @given(strategy("quick"))
        def collect(case):
            texts.append(render(case))
        collect()
        for i, t in enumerate(texts):
            with open(os.path.join(corpus, f"gen{i}.py"), "w", encoding="utf-8", newline="") as fh:
                fh.write(t)
        res = os.path.join(work, "result.json")
        cmd = [sys.executable, "-W", "ignore", "-m", "pbt.fuzz_c19", res, corpus, "-runs=300000",
               f"-seed={seed + 1}", "-max_total_time=150", "-max_len=400", "-print_final_stats=0"]
        p = subprocess.run(cmd, capture_output=True, text=True, timeout=400)
        data = json.load(open(res)) if os.path.exists(res) else {"stats": {}, "violation": None}
        out["atheris"] = {"seed_inputs": len(texts), "exit": p.returncode, **data.get("stats", {})}
        ctx.evaluations += data.get("stats", {}).get("execs", 0)
        v = data.get("violation")
        if v:
            out["failures"].append(({"src": v["src"]}, v["key"], v["detail"]))
    finally:
        shutil.rmtree(work, ignore_errors=True)
    return out


def require(ctx, tier):
    for lab in ("style:paren-multi", "style:backslash", "joined-with-semicolon", "crlf",
                "no-final-newline", "exotic-line-break-char", "has-block", "star", "relative",
                "mapped-import", "mapping-target"):
        if not ctx.labels.get(lab):
            raise HarnessError(f"C19 generator never produced class {lab!r}")


MANIFEST = {
    "text": "The mapping table is checked exhaustively (every target imported). The rewriter is "
            "searched with grammar-generated Python modules under an AST-differential oracle: output "
            "parses, non-import statements identical and in order, import bindings mapped exactly. "
            "Finds lost/duplicated/reordered statements, dropped names or aliases and bad splices on "
            "the explored layouts; no absence claim beyond them.",
    "design_ref": "DESIGN.md section 3, C19",
    "note": "trusts CPython ast.parse/ast.dump; comments are not compared; only top-level level-0 "
            "from-imports are expected to be rewritten",
    "technique": "exhaustive table check + grammar-based property testing (Hypothesis), AST differential oracle",
}
