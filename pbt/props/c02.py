"""C02 - validation verdict equals the declared constraints (reference-model oracle).

case = {"spec": SchemaSpec, "value": value recipe, "src": how the value was made}
"""
from hypothesis import strategies as st

from .. import model, specs, values
from ..core import HarnessError, Violation

ID = "C02"
LEVEL = "exploration"
RULE = ("exhaustive: typed lists of every scalar kind x all ordered pairs of 16 equal-valued scalars of different types (1/1.0/True, 0/0.0/False, 2**70/float, ...); then Hypothesis draws any declarable SchemaSpec (13 types, all list forms x len forms, dicts "
        "with optional/relaxed keys (`...: ...` at any position), any, alias, and schemas combined with | + make_required; depth<=3; satisfiable or not) and a value from "
        "four sources: built to conform (independently of d42's generator), conforming with one "
        "spec-aware near-miss (min-1, max+1, len+-1, char outside alphabet, broken substring, "
        "dropped/extra key, shifted window...), one generic structural step at a drawn depth, or "
        "unrelated (another spec's value / junk / zoo). Oracle: pbt.model.conforms (three-valued). "
        "distinct = canonical JSON of (spec, value); non-trivial = model is decisive and the value "
        "is conforming-by-construction or one step away from it")
ASSUMPTIONS = [
    "reference semantics pbt/model.py is the reading of the C02 statement; DONTCARE zones: bool "
    "under int, subclasses of the declared built-in type, datetime under date, float tolerance band, NaN",
    "regex semantics are re.search of CPython",
]
BUDGET = {"quick": (1500, 4), "thorough": (20000, 16)}


@st.composite
def _case(draw):
    spec = draw(specs.spec_strategy(depth=draw(st.integers(0, 3)), sat=draw(st.booleans()),
                                    derived=draw(st.integers(0, 3)) == 0))
    share = draw(st.integers(0, 3)) == 0
    if share:
        spec = specs.with_repeats(draw, spec)
    src = draw(st.sampled_from(["conforming", "near", "near", "perturb", "unrelated", "dict-subclass"]))
    applied = None
    try:
        if src == "conforming":
            v = draw(values.conforming(spec))
        elif src == "near":
            v, applied = draw(values.near(spec))
        elif src == "perturb":
            v, _ = draw(values.perturb(draw(values.conforming(spec))))
        elif src == "dict-subclass":
            v = values.wrap_dicts(draw, draw(values.conforming(spec)), drop=draw(st.booleans()))
        else:
            v = draw(st.one_of(
                values.junk, values.zoo,
                specs.spec_strategy(depth=1).flatmap(values.conforming)))
    except values.Unsat:
        src = "unsat->junk"
        v = draw(values.junk)
    return {"spec": spec, "value": v, "src": src, "applied": applied, "share": share}


def strategy(tier):
    return _case()


def exhaustive(tier):
    """typed lists / dict members / any-alternatives of every scalar type  x  short value lists built from
    equal-valued scalars of different types (1 / 1.0 / True, 0 / 0.0 / False, 2**70 / float(2**70), '' / b'')
    in both orders: anything that remembers or compares members by value alone goes wrong exactly here"""
    twins = [1, 1.0, True, 0, 0.0, False, 2 ** 70, float(2 ** 70), 3, 3.0, "", b"", "a", None, -1, -1.0]
    elems = [{"t": "int"}, {"t": "float"}, {"t": "bool"}, {"t": "str"}, {"t": "bytes"}, {"t": "none"},
             {"t": "int", "value": 1}, {"t": "float", "value": 1.0}, {"t": "int", "min": 0, "max": 1, "order": ["min", "max"]},
             {"t": "any", "alts": [{"t": "int"}, {"t": "str"}]}]
    import datetime as _dt
    bare = elems + [{"t": "int", "value": 0}, {"t": "int", "value": 2 ** 70}, {"t": "float", "value": 0.0}, {"t": "float", "value": 3.0},
                    {"t": "bool", "value": True}, {"t": "bool", "value": False}, {"t": "str", "value": ""}, {"t": "bytes", "value": b""},
                    {"t": "bytes", "value": b"a"}, {"t": "int", "value": 3, "min": 0, "order": ["min"]},
                    {"t": "date", "value": _dt.date(2020, 1, 2)}, {"t": "datetime", "value": _dt.datetime(2020, 1, 2)}]
    from ..codec import Zoo as _Zoo
    for e in bare:
        for a in twins + [b"a", _Zoo("bytearray"), _dt.date(2020, 1, 2), _dt.datetime(2020, 1, 2), _dt.datetime(2020, 1, 2, 3)]:
            yield {"spec": e, "value": a, "src": "conforming", "applied": None}
    for e in elems:
        typed = {"t": "list", "form": "typed", "elem": e}
        for a in twins:
            for b in twins:
                yield {"spec": typed, "value": [a, b], "src": "conforming", "applied": None}
        yield {"spec": typed, "value": [1, 1, 1.0, 1], "src": "conforming", "applied": None}
    # string constraints x every string over {a, b, q} up to length 4 (the offending character / the missing substring at
    # every position)
    import itertools
    strs = ["".join(t) for n in range(5) for t in itertools.product("abq", repeat=n)]
    strs += [x + "\n" for x in strs if len(x) <= 3] + ["\nab", "a\nb", "ab\n\n", "ab\r", "ab\x00", "ab ", " ab"]
    for sp in ({"t": "str", "alphabet": "ab", "order": ["alphabet"]},
               {"t": "str", "alphabet": "ba", "len": ["eq", 3], "order": ["len", "alphabet"]},
               {"t": "str", "substr": "ab", "order": ["substr"]},
               {"t": "str", "substr": "ab", "len": ["range", 1, 3], "order": ["substr", "len"]},
               {"t": "str", "pattern": "^a+b?$"}, {"t": "str", "pattern": "ab"}, {"t": "str", "value": "aba"},
               {"t": "str", "alphabet": "abq", "substr": "qa", "len": ["min", 3], "order": ["len", "substr", "alphabet"]}):
        for x in strs:
            yield {"spec": sp, "value": x, "src": "conforming", "applied": None}
    import string
    classy = [string.digits, "9876543210", string.ascii_lowercase, string.ascii_letters, string.hexdigits, " \t\n\r\x0b\x0c", string.ascii_uppercase,
              string.digits + string.ascii_letters, string.printable]
    odd = ["\u0663", "\uff11\uff12\uff13", "10\u00b2", "\u00e9", "\u00df", "\u00aa", "\uff21", "\u00a0", "\u2003", "\u0131", "\u212a", "1\u0663",
           "a\u00e9", "\u2167", "\u00bd", "A\u0391", " \u00a0", "", "12", "ab", "AB", " "]
    for al in classy:
        for x in odd:
            yield {"spec": {"t": "str", "alphabet": al, "order": ["alphabet"]}, "value": x, "src": "conforming", "applied": None}
    # a fixed float value next to a bound that coincides with it (the value comparison is tolerant, the bounds are exact)
    import math
    for v in (1.0, 9.0, 0.25, -2.5, 1e15, 3.14159):
        for extra in ({"min": v}, {"max": v}, {"min": v, "max": v}, {"max": v, "precision": 2}, {"min": v, "precision": 2},
                      {"precision": 2}, {}):
            sp = dict({"t": "float", "value": v}, **extra)
            sp["order"] = [k for k in ("min", "max", "precision") if k in sp]
            for w in (v, math.nextafter(v, math.inf), math.nextafter(v, -math.inf), v * (1 + 2e-13), v * (1 - 2e-13),
                      v + 0.004, v - 0.004, v + 0.03, v - 0.03, v + 1.0, v - 1.0):
                yield {"spec": sp, "value": w, "src": "conforming", "applied": None}
    # enumerations (every alternative a constant) x the same scalars, bare and as list elements
    import decimal
    import fractions
    from ..codec import Zoo
    enums = [[{"t": "int", "value": 1}, {"t": "int", "value": 0}], [{"t": "int", "value": 3}, {"t": "none"}, {"t": "str", "value": "a"}],
             [{"t": "str", "value": ""}, {"t": "str", "value": "a"}], [{"t": "none"}, {"t": "int", "value": 2 ** 70}],
             [{"t": "int", "value": 1}], [{"t": "float", "value": 1.0}, {"t": "int", "value": 3}], [{"t": "bool", "value": True}, {"t": "none"}],
             [{"t": "int", "value": -1}, {"t": "int", "value": 1}, {"t": "int", "value": 3}, {"t": "str", "value": "1"}]]
    for alts in enums:
        en = {"t": "any", "alts": alts}
        for a in twins + ["1", "3", 2, 2.0]:
            yield {"spec": en, "value": a, "src": "conforming", "applied": None}
            yield {"spec": {"t": "list", "form": "typed", "elem": en}, "value": [a, 1, a], "src": "conforming", "applied": None}
        yield {"spec": {"t": "dict", "entries": [{"key": "x", "opt": False, "spec": e}, {"key": "y", "opt": False, "spec": e}],
                        "relaxed": False}, "value": {"x": 1, "y": 1.0}, "src": "conforming", "applied": None}


def check(case, ctx):
    from d42 import validate
    from d42.declaration import DeclarationError

    spec = case["spec"]
    try:
        S = specs.build(spec, share={} if case.get("share") else None)
    except DeclarationError as e:
        ctx.skip_undeclarable(None, e)
        return
    v = values.realize(case["value"])
    try:
        expected = model.conforms(spec, v)
    except Exception as e:  # noqa
        raise HarnessError(f"model failed on {spec!r} / {v!r}: {e!r}")
    try:
        res = validate(S, v)
    except Exception as e:  # noqa
        if values.has_zoo(case["value"]):
            ctx.label("validate-raised-on-zoo(C08)")
            return
        raise Violation("validate-raises", f"validate({S!r}, {v!r}) raised {e!r}")
    got = not res.has_errors()
    try:
        from d42.validation import Validator
        own = S.__accept__(Validator(), value=v)
        if own.has_errors() != res.has_errors():
            raise Violation("own-validator-differs", f"Validator() instance and validate() disagree on {S!r} / {v!r}")
    except Violation:
        raise
    except Exception as e:  # noqa
        raise Violation("own-validator-raises", f"S.__accept__(Validator(), value=...) raised {e!r} for {S!r} / {v!r}")
    src = case["src"]
    ctx.label("src:" + src)
    if case.get("share"):
        ctx.label("shared-member-objects")
    if case.get("applied"):
        ctx.label("near:" + case["applied"])
    if expected is None:
        ctx.label("dontcare")
        return
    if got != expected:
        kind = "false-accept" if got else "false-reject"
        raise Violation(kind, f"validate({S!r}, {v!r}) -> errors={res.get_errors()!r}; "
                              f"reference model says {'conforms' if expected else 'does not conform'}")
    try:
        eq = (S == v)
    except Exception as e:  # noqa
        raise Violation("eq-raises", f"({S!r} == {v!r}) raised {e!r}")
    if bool(eq) != got:
        raise Violation("eq-mismatch", f"({S!r} == {v!r}) is {eq!r} but validate has_errors={not got}")
    ctx.label("verdict:accept" if got else "verdict:reject")
    labs = specs.node_labels(spec)
    for lab in labs:
        ctx.label(lab)
    if src in ("conforming", "near", "perturb", "dict-subclass"):
        ctx.label("nontrivial:accept" if got else "nontrivial:reject")
        ctx.mark_nontrivial({"spec": spec, "value": case["value"]},
                            sample_class=(src, got, spec["t"]))


def require(ctx, tier):
    L = ctx.labels
    nt = L.get("nontrivial:accept", 0) + L.get("nontrivial:reject", 0)
    if nt == 0 or min(L.get("nontrivial:accept", 0), L.get("nontrivial:reject", 0)) < 0.1 * nt:
        raise HarnessError(f"C02 verdict balance too skewed: {L.get('nontrivial:accept')} accept / "
                           f"{L.get('nontrivial:reject')} reject")
    for lab in ("list:exact", "list:head", "list:tail", "list:contains", "list:typed",
                "dict:relaxed", "dict:optional", "t:any", "t:alias", "str:alphabet", "str:substr",
                "str:pattern", "float:precision", "t:uuid4", "t:date"):
        if not L.get(lab):
            raise HarnessError(f"C02 generator never produced class {lab!r}")


# thorough tier: libFuzzer (atheris) also drives this strategy with coverage feedback from d42
COVERAGE_GUIDED = {"runs": 60000, "seconds": 120}

MANIFEST = {
    "text": "Differential search against an independent reference semantics: tens of thousands of "
            "(schema, value) pairs centred on the accept/reject boundary; any pair on which d42's "
            "verdict differs from the model where the statement is decisive is reported. No "
            "absence claim beyond the explored pairs.",
    "design_ref": "DESIGN.md section 1.2 and section 3, C02",
    "note": "trusts pbt/model.py (declarative restatement of the property) and CPython re; pairs in the "
            "documented DONTCARE zones are not compared",
    "technique": "property-based testing (Hypothesis), reference-model differential oracle",
}
