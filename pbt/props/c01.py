"""C01 - generated data always validates against its own schema, for every RNG outcome.

case = {"spec": satisfiable SchemaSpec (may be derived: or/add/required/subst),
        "witness": value recipe conforming by construction, "rng": [selectors], "seed": None|k}
"""
from hypothesis import strategies as st

from .. import model, rng, specs, values
from ..core import HarnessError, Violation

ID = "C01"
LEVEL = "exploration"
RULE = ("exhaustive part: float ranges among the subnormal numbers and at both ends of the double range (single-number ranges "
        "and ranges wider than the largest float included) and 14 regex formats with explicit counts above the generator's "
        "repeat limit inside other quantifiers, bare and inside list / dict / any, each under the lowest, highest and a middle "
        "outcome of every draw. Generated part: Hypothesis draws a SchemaSpec that is satisfiable by construction, hereditarily (13 types, "
        "depth<=3, value+constraint combinations, all list forms x len forms, int bounds up to "
        "+-2**70, str/list lengths beyond STR_LEN_MAX/LIST_LEN_MAX, precision grids with a grid "
        "point inside [min,max], regex nodes, alias; plus derived schemas a|b, d1+d2, "
        "make_required, S % partial-value) together with an independently built witness value, and "
        "an RNG script (selectors: 0.0 / 1.0 = extreme outcome of a draw) or a real seed. The "
        "witness must validate (else the case is outside the domain and is skipped, counted). "
        "distinct = canonical JSON of (spec, rng, seed); non-trivial = at least one RNG draw was "
        "consumed while generating")
ASSUMPTIONS = [
    "the validator is taken as the property words it (its agreement with the reference model is C02)",
    "non-finite float bounds are outside the domain; satisfiability is hereditary (every any-alternative, "
    "every dict member satisfiable)",
    "RNG outcomes are explored at the level of random.randint/uniform/choice",
]
BUDGET = {"quick": (1200, 4), "thorough": (25000, 16)}

_NOVAL = {"$novalue": True}
_ANYVAL = {"$anyvalue": True}


def _project(draw, v):
    """Partial projection of a conforming value: drop dict keys at any depth."""
    if isinstance(v, dict):
        out = {}
        for k, x in v.items():
            if draw(st.integers(0, 3)) == 0:
                continue
            out[k] = _project(draw, x)
        return out
    if isinstance(v, list):
        return [_project(draw, x) for x in v]
    return v


def _placeholders(draw, v, top=True):
    """Put `...` placeholders into a (projected) value the way substitution allows them: as the first
    or last item of a list (the rest of the list is dropped on that side), or as a dict value."""
    if isinstance(v, list):
        out = [_placeholders(draw, x, False) for x in v]
        if out and draw(st.integers(0, 2)) == 0:
            cut = draw(st.integers(1, len(out)))
            out = ([...] + out[cut:]) if draw(st.booleans()) else (out[:len(out) - cut] + [...])
        return out
    if isinstance(v, dict):
        return {k: (... if draw(st.integers(0, 5)) == 0 else _placeholders(draw, x, False))
                for k, x in v.items()}
    return v


@st.composite
def _grid_spec(draw):
    """float with a precision whose bounds hug grid points: exactly on them, one ulp inside/outside,
    or a computed sum such as 0.2 + 0.7 that lands next to one (where scaling by 10**p is inexact)."""
    import math
    p = draw(st.integers(1, 6))
    scale = 10 ** p
    k1 = draw(st.integers(-3 * scale, 3 * scale))
    k2 = k1 + draw(st.integers(0, 3))
    lo_g, hi_g = k1 / scale, k2 / scale

    def hug(g, k, sign):
        a = draw(st.integers(1, 9))
        choices = [g, g, math.nextafter(g, sign * math.inf), math.nextafter(g, -sign * math.inf),
                   (k - a) / scale + a / scale, g + sign * 0.3 / scale]
        return draw(st.sampled_from(choices))
    s = {"t": "float", "precision": p}
    which = draw(st.sampled_from(["both", "both", "min", "max"]))
    if which in ("both", "min"):
        s["min"] = hug(lo_g, k1, -1)
    if which in ("both", "max"):
        s["max"] = hug(hi_g, k2, 1)
    if "min" in s and "max" in s and s["min"] > s["max"]:
        s["max"] = s["min"]
    s["order"] = list(draw(st.permutations([k for k in ("min", "max", "precision") if k in s])))
    cands = [g for g in (lo_g, hi_g, (k1 + 1) / scale) if s.get("min", g) <= g <= s.get("max", g)]
    w = cands[0] if cands else _NOVAL
    wrap = draw(st.sampled_from(["bare", "bare", "list", "dict"]))
    if wrap == "list":
        return {"t": "list", "form": "typed", "elem": s, "len": ["range", 1, 3]}, ([w] if w != _NOVAL else _NOVAL)
    if wrap == "dict":
        return ({"t": "dict", "entries": [{"key": "x", "opt": False, "spec": s}], "relaxed": False},
                ({"x": w} if w != _NOVAL else _NOVAL))
    return s, w


@st.composite
def _case(draw):
    depth = draw(st.integers(0, 3))
    kind = draw(st.sampled_from(["plain", "plain", "plain", "derived", "subst", "subst", "grid"]))
    if kind == "grid":
        spec, w = draw(_grid_spec())
    elif kind == "subst" and draw(st.integers(0, 3)) == 0:
        # a typed list with a length constraint, substituted with a shorter value that ends (or
        # starts) with `...`: only substitution can produce such an element list + min length
        elem = draw(specs.spec_strategy(depth=0, sat=True))
        n = draw(st.integers(2, 4))
        lf = draw(st.sampled_from([["min", n], ["range", n, n + 2], ["eq", n], ["max", n + 1]]))
        base = {"t": "list", "form": "typed", "elem": elem, "len": lf}
        try:
            w = draw(values.conforming(base))
            keep = draw(st.integers(0, max(0, len(w) - 1)))
            v = (w[:keep] + [...]) if draw(st.booleans()) else ([...] + w[len(w) - keep:] if keep else [...])
            spec = {"t": "subst", "s": base, "v": v}
            if draw(st.booleans()):
                spec = {"t": "subst", "s": {"t": "dict", "entries": [{"key": "items", "opt": False, "spec": base}],
                                            "relaxed": False}, "v": {"items": v}}
                w = {"items": w}
        except values.Unsat:
            spec, w = base, _NOVAL
    elif kind == "subst":
        base = draw(specs.spec_strategy(depth=depth, sat=True, derived=False))
        try:
            if draw(st.integers(0, 3)) == 0:
                from .. import substgen
                base, w = draw(substgen.lookalike_union())
            else:
                w = draw(values.conforming(base))
            v = _project(draw, w)
            if draw(st.booleans()):
                v = _placeholders(draw, v)
            spec = {"t": "subst", "s": base, "v": v}
        except values.Unsat:
            spec, w = base, _NOVAL
    else:
        spec = draw(specs.spec_strategy(depth=depth, sat=True, derived=(kind == "derived")))
        try:
            w = draw(values.conforming(spec))
        except values.Unsat:
            w = _NOVAL
    return {"spec": spec, "witness": w, "rng": draw(rng.script_strategy(50)),
            "seed": draw(st.one_of(st.none(), st.none(), st.none(), st.integers(0, 2 ** 32)))}


def strategy(tier):
    return _case()


# patterns in the style of real formats: explicit counts above the generator's limit for open-ended repeats (32),
# also inside other quantifiers
FORMATS = ["^[0-9a-f]{40}$", "^(?:[0-9a-f]{40} ){1,3}$", "^v[0-9]+(?:-g[0-9a-f]{40})?$", "(?:[A-Z]{33}){2}", "(?:a{40,}){2}",
           "(?:\\d{64})*", "(?:x{33,35}y)+", "^(?:[a-z]{1,63}\\.){1,3}[a-z]{2,63}$", "[01]{128}", "(?:[0-9a-f]{2}:){5}[0-9a-f]{2}",
           "^[A-Za-z0-9+/]{44}={0,2}$", "(?:(?:ab){33}c){0,2}", "\\w{0,100}", "(?:-?\\d{1,40}){3}",
           # flags scoped to a group (they end with the group)
           "(?s:<.>)=.", "(?i:ab)c.", "(?s:.)(?-s:.).", "x(?s:.+)y.{3}", "(?x: a b )c ."]


def exhaustive(tier):
    """finite corners no random draw is likely to hit: float ranges among the subnormal numbers and at the ends of the
    double range (single-number ranges included), realistic regex formats - each under the lowest, the highest and a
    middle outcome of every draw, bare and inside a container"""
    scripts = ([0.0] * 12, [1.0] * 12, [0.5] * 12, [1.0, 0.0] * 6)
    tiny = 5e-324
    fl = []
    for k in range(-5, 6):
        for j in (0, 1, 2, 3):
            fl.append({"t": "float", "min": k * tiny, "max": (k + j) * tiny, "order": ["min", "max"]})
        fl.append({"t": "float", "min": k * tiny, "max": 1.0, "order": ["max", "min"]})
        fl.append({"t": "float", "min": -1.0, "max": k * tiny, "order": ["min", "max"]})
    big = 1.7976931348623157e308
    for lo, hi in ((-big, big), (1e308, big), (-big, -1e308), (big, big), (-big, -big), (-1e308, 1e308), (0.0, big),
                   (2.2250738585072014e-308, 2.225073858507202e-308), (-0.0, 0.0), (0.0, -0.0)):
        fl.append({"t": "float", "min": lo, "max": hi, "order": ["min", "max"]})
    for spec in fl:
        for script in scripts:
            yield {"spec": spec, "witness": spec["min"], "rng": script, "seed": None}
    # declarations the library refuses today; should a change make one of them declarable, a conforming value exists
    # and generation must serve it (counted as skip:undeclarable-spec while they are refused)
    refused = [{"t": "str", "len": lf, "pattern": p, "order": ["len", "pattern"]}
               for lf in (["min", 40], ["range", 1, 3], ["max", 2], ["eq", 36]) for p in ("[a-z]+", "[0-9]+", "^x*$")]
    refused += [{"t": "str", "alphabet": "ab", "pattern": "[ab]{40}", "order": ["alphabet", "pattern"]},
                {"t": "str", "substr": "ab", "pattern": "(?:ab)+c", "order": ["substr", "pattern"]},
                {"t": "float", "value": 1}, {"t": "float", "value": 2, "min": 1.0, "max": 3.0, "order": ["min", "max"]},
                {"t": "float", "min": 0, "max": 1, "order": ["min", "max"]}, {"t": "int", "value": 1.0}, {"t": "int", "min": 0.5},
                {"t": "bool", "value": 1}, {"t": "bytes", "value": "ab"}, {"t": "str", "value": "ab", "pattern": "b$"}]
    for spec in refused:
        for wrap in (spec, {"t": "list", "form": "typed", "elem": spec, "len": ["eq", 2]}):
            for script in scripts[:3]:
                yield {"spec": wrap, "witness": _ANYVAL, "rng": script, "seed": None}
    for p in FORMATS:
        base = {"t": "str", "pattern": p}
        for spec in (base, {"t": "list", "form": "typed", "elem": base, "len": ["eq", 2]},
                     {"t": "dict", "entries": [{"key": "k", "opt": False, "spec": base}], "relaxed": True},
                     {"t": "any", "alts": [base]}):
            for script in scripts[:3]:
                yield {"spec": spec, "witness": _ANYVAL, "rng": script, "seed": None}
            yield {"spec": spec, "witness": _ANYVAL, "rng": [], "seed": 11}


def _r(x):
    try:
        return repr(x)
    except Exception as e:  # noqa
        return f"<unprintable {type(x).__name__}: {e!r}>"


def _has_ellipsis(v):
    if v is Ellipsis:
        return True
    if isinstance(v, list):
        return any(_has_ellipsis(x) for x in v)
    if isinstance(v, dict):
        return any(_has_ellipsis(x) for x in v.values())
    return False


def _must_draw(spec):
    """Does generating from this spec necessarily consume a draw at its root?"""
    t = spec["t"]
    if t in ("int", "float", "bool", "bytes"):
        return "value" not in spec
    return False


def classify(case, v):
    if v.key.startswith("fake-raises:IndexError"):
        if any(s["t"] == "str" and s.get("alphabet") == "" and "value" not in s
               for s, _ in specs.walk(case["spec"])):
            return "empty-alphabet"
    return v.key


KNOWN = {
    "empty-alphabet": {"spec": {"t": "str", "alphabet": ""}, "witness": "", "rng": [0.5], "seed": None},
}


def check(case, ctx):
    from d42 import fake, validate
    from d42.declaration import DeclarationError
    from d42.substitution.errors import SubstitutionError

    spec = case["spec"]
    try:
        S = specs.build(spec)
    except DeclarationError as e:
        ctx.skip_undeclarable(None, e)
        return
    except SubstitutionError:
        ctx.label("skip:substitution-refused")
        return
    except Exception:  # noqa
        if spec["t"] == "subst":
            ctx.label("skip:substitution-raised(C12)")     # exception type of substitute is C12's business
            return
        raise
    if spec["t"] == "subst":
        from .c12 import _illegal_ellipsis
        if _illegal_ellipsis(S):
            # substitution copied a `...` placeholder to a place where no schema can stand (open finding
            # of C12, key ellipsis-copied-into-schema): such a result is not a schema C01 speaks about
            ctx.label("skip:malformed-result(C12 finding)")
            return
    if case["witness"] == _NOVAL:
        ctx.label("skip:no-witness-built")
        return
    if case["witness"] != _ANYVAL:      # (_ANYVAL: satisfiable by inspection - the hand-written formats of the exhaustive part)
        w = values.realize(case["witness"])
        if spec["t"] != "subst" and model.conforms(spec, w) is False:
            raise HarnessError(f"witness {w!r} does not conform to {spec!r} by the reference model")
        try:
            wres = validate(S, w)
        except Exception:  # noqa
            ctx.label("skip:validate-raised-on-witness")
            return
        if wres.has_errors():
            ctx.label("skip:witness-rejected-by-validate")
            return

    # ---- generate under the scripted / seeded RNG ---------------------------------------------
    entry = len(case["rng"]) % 3

    def gen():
        if entry == 0:
            return fake(S)
        if entry == 1:
            return ~S
        # a generator of one's own with an injected Random, as the library allows
        from d42.generation import Generator, Random, RegexGenerator
        rnd = Random()
        return S.__accept__(Generator(rnd, RegexGenerator(rnd)))
    try:
        if case["seed"] is None:
            with rng.scripted(case["rng"]) as r:
                g = gen()
        else:
            r = None
            with rng.seeded(case["seed"]):
                g = gen()
    except Exception as e:  # noqa
        raise Violation(f"fake-raises:{type(e).__name__}", f"fake({_r(S)}) raised {e!r}")
    try:
        res = validate(S, g)
    except Exception as e:  # noqa
        raise Violation("validate-raises", f"validate({_r(S)}, {g!r}) raised {e!r}")
    if res.has_errors():
        raise Violation("fake-invalid", f"fake({_r(S)}) = {g!r} -> {_r(res.get_errors())}")
    # the other public ways of asking whether a value conforms: the == / != operators, validate_or_fail, a validator of
    # one's own
    try:
        from d42 import validate_or_fail
        from d42.validation import Validator
        answers = {"S == value": (S == g) is True, "not (S != value)": (S != g) is False,
                   "validate_or_fail": validate_or_fail(S, g) is True,
                   "own Validator": not S.__accept__(Validator(), value=g).has_errors()}
    except Exception as e:  # noqa
        raise Violation("fake-invalid", f"fake({_r(S)}) = {g!r}: validate accepts it, another entry point raised {e!r}")
    bad = [k for k, ok in answers.items() if not ok]
    if bad:
        raise Violation("fake-invalid", f"fake({_r(S)}) = {g!r}: validate accepts it, but {bad!r} say otherwise")

    if r is not None and _must_draw(spec) and r.draws == 0:
        raise HarnessError("vacuity guard: a spec that must draw consumed no scripted RNG outcome "
                           "(d42 no longer draws through d42.generation._random.random?)")
    labs = specs.node_labels(spec)
    for lab in labs:
        ctx.label(lab)
    if any(s_.get("t") == "float" and "precision" in s_ and ("min" in s_ or "max" in s_)
           for s_, _ in specs.walk(spec)):
        ctx.label("grid-hugging-bounds")
    if spec["t"] == "subst" and _has_ellipsis(spec["v"]):
        ctx.label("subst-with-placeholders")
    ctx.label("mode:scripted" if r is not None else "mode:seeded", "entry:%s" % ("fake", "invert", "own-generator")[entry])
    if r is not None and r.extremes:
        ctx.label("has-extreme-draw")
    if r is None or r.draws > 0:
        ctx.label("nontrivial")
        ctx.mark_nontrivial({"spec": spec, "rng": case["rng"], "seed": case["seed"]},
                            sample_class=(spec["t"], bool(r)))


def require(ctx, tier):
    L = ctx.labels
    total = L.get("mode:scripted", 0) + L.get("mode:seeded", 0)
    skipped = sum(v for k, v in L.items() if k.startswith("skip:") and k not in (
        "skip:substitution-refused", "skip:substitution-raised(C12)", "skip:malformed-result(C12 finding)"))
    if total == 0 or skipped > 0.1 * (total + skipped):
        raise HarnessError(f"C01: too many cases outside the domain ({skipped} skipped / {total} run): "
                           f"{ {k: v for k, v in L.items() if k.startswith('skip:')} }")
    for lab in ("t:subst", "t:or", "t:add", "t:required", "ellipsis-list+len", "float:precision", "grid-hugging-bounds",
                "subst-with-placeholders",
                "bound-beyond-default", "str:substr+len", "str:pattern", "has-extreme-draw",
                "depth>=2", "mode:seeded"):
        if not L.get(lab):
            raise HarnessError(f"C01 generator never produced class {lab!r}")


MANIFEST = {
    "text": "Generated-input search over satisfiable schemas x RNG schedules (each draw's extreme "
            "outcomes forced through a scripted random module, plus real seeded runs): fake() must "
            "return and its value must validate. Finds generator/validator disagreements on the "
            "explored schema shapes and draw outcomes; no absence claim.",
    "design_ref": "DESIGN.md sections 1.5 and 3, C01",
    "note": "trusts d42.validate as the acceptance oracle (C02 checks it against the model); the "
            "stdlib random module is replaced at d42.generation._random.random for scripted cases",
    "technique": "property-based testing (Hypothesis) with scripted RNG schedule, generate-then-validate oracle",
}
