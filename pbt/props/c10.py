"""C10 - a declaration either fails cleanly or yields a self-consistent schema.

case = {"type": facade attribute, "calls": [[method, arg, ...], ...]}   (chain length <= 4)
arg recipes: plain values, Zoo markers (nil, object, ...), Ellipsis, {"$spec": SchemaSpec} for a
schema argument, lists/dicts of those for list / dict declarations, ("$opt", key) for optional(key).
Chains of length <= 2 over the base universe are enumerated exhaustively.
"""
import datetime as _dt
import itertools
import math
import uuid

from hypothesis import strategies as st

from .. import canon, specs, values
from ..codec import Zoo
from ..core import Violation

ID = "C10"
LEVEL = "exploration"
RULE = ("call chains (length<=4) over every refinement method of every type (__call__, min, max, "
        "precision, len with 1 and 2 arguments incl. both ellipsis forms, alphabet, contains, regex; "
        "list/dict/any __call__) with arguments from per-parameter universes: valid, boundary, "
        "contradicting an earlier fixed value, and ill-typed (None, str, float, bool, ..., Nil, list, "
        "tuple, schema, negative lengths, UUID v1, datetime for date). Chains of length<=2 over the "
        "base universe are enumerated exhaustively; lengths 3-4 are sampled by Hypothesis. distinct "
        "= canonical JSON of the chain; non-trivial = chain with >=2 calls of which >=1 succeeded")
ASSUMPTIONS = [
    "calls use a correct number of arguments (Python arity TypeErrors are not declaration errors)",
    "optional(...) keys are built with valid arguments (its constructor raises TypeError on its own)",
    "NaN fixed values are exempt from 'the fixed value conforms' (NaN != NaN)",
]
BUDGET = {"quick": (1500, 2), "thorough": (30000, 16)}
EXHAUSTIVE_COMPLETE = True

E = ...
NIL = Zoo("nil")
ILL = [None, "s", 1.5, True, E, NIL, [], (1,), {"$spec": {"t": "int"}}, -1, b"x", Zoo("object"), {}]
U1 = uuid.UUID("12345678-1234-1234-8234-123456789abc")
U4 = uuid.UUID("12345678-1234-4234-8234-123456789abc")
DT = _dt.datetime(2020, 1, 2, 3, 4, 5)
D = _dt.date(2020, 1, 2)

SP_INT = {"$spec": {"t": "int"}}
SP_INT1 = {"$spec": {"t": "int", "value": 1}}
SP_STR = {"$spec": {"t": "str", "value": "a"}}
SP_ANY = {"$spec": {"t": "any", "alts": [{"t": "int"}, {"t": "none"}]}}
SP_MARKER_FIRST = {"$spec": {"t": "dict", "entries": [{"key": "id", "opt": False, "spec": {"t": "int"}}], "relaxed": True, "relaxed_at": 0}}
SP_DICT0 = {"$spec": {"t": "dict", "entries": [], "relaxed": False}}       # its repr holds braces
SP_BRACES = {"$spec": {"t": "str", "value": "{x}"}}
SP_ANYBARE = {"$spec": {"t": "any"}}        # accepts every value (the Ellipsis object included)
# the version digit says 4, the variant bits are not RFC 4122's (UUID.version is None for them)
U4_NCS = uuid.UUID("00000000-0000-4000-0000-000000000000")
U4_MS = uuid.UUID("12345678-1234-4234-c234-123456789abc")

LEN1 = [[0], [1], [2], [3], [-1], [True], [2 ** 63], [1.5], ["2"], [None], [NIL], [E]]
LEN2 = [[0, E], [2, E], [3, E], [E, 0], [E, 2], [E, 3], [1, 2], [2, 2], [3, 1], [-1, E], [E, -1],
        [E, E], [None, 2], [1, None], [1.5, E], [E, "2"], [E, NIL], [NIL, 2], [2, 5]]


def _calls(name, arglists):
    return [[name] + list(a) for a in arglists]


UNIVERSE = {
    "none": [],
    "bool": _calls("__call__", [[True], [False], [1], [0], [None], ["True"], [E], [NIL]]),
    "int": _calls("__call__", [[0], [1], [-1], [2 ** 63], [10 ** 400], [10 ** 5000], [True], [1.0], ["1"], [None], [E], [NIL]])
    + _calls("min", [[0], [1], [2], [-1], [2 ** 70], [-(2 ** 1030)], [True], [0.5], ["0"], [None], [E]])
    + _calls("max", [[0], [1], [2], [-1], [-2 ** 70], [False], [0.5], ["0"], [None], [NIL]]),
    "float": _calls("__call__", [[0.5], [0.54], [1.0], [-0.0], [float("inf")], [float("nan")], [1], [True],
                                 ["1.0"], [None], [E]])
    + _calls("min", [[0.5], [1.0], [0.0], [0.54], [float("inf")], [float("nan")], [1], [None], ["x"]])
    + _calls("max", [[0.5], [1.0], [0.0], [0.46], [float("-inf")], [float("nan")], [0], [None], [NIL]])
    + _calls("precision", [[1], [2], [15], [0], [16], [-1], [True], [1.0], ["2"], [None], [2 ** 63]]),
    "str": _calls("__call__", [["ab"], [""], ["a"], ["abc"], ["{}"], ["{0}%s"], ["\u0661\u0662"], ["cafe\u0301"], ["\u212b"], [1], [b"ab"], [None], [E], [["a"]]])
    + _calls("len", LEN1 + LEN2)
    + _calls("alphabet", [["ab"], ["a"], [""], ["abc "], ["0123456789"], ["caf\u00e9"], ["\u00c5"], [1], [None], [["a", "b"]], [b"ab"]])
    + _calls("contains", [["a"], ["ab"], ["c"], [""], ["\u00e9"], ["1"], [1], [None], [b"a"], [E]])
    + _calls("regex", [["a"], ["^ab$"], ["c+"], [""], ["("], ["[a"], [1], [None], [b"a"], [E],
                       [Zoo("re_compiled_icase")], ["x{2}"], ["a{99999999999999999999}"], ["(" * 500 + "a" + ")" * 500]]),
    "list": _calls("__call__", [[[]], [[SP_INT1]], [[SP_INT1, SP_STR]], [[SP_INT, E]], [[E, SP_INT]],
                                [[E, SP_INT, E]], [[E]], [[E, E]], [[SP_INT, E, SP_INT]],
                                [[SP_ANYBARE, SP_INT1]], [[SP_DICT0]], [[SP_BRACES, E]], [[SP_MARKER_FIRST]], [SP_MARKER_FIRST], [[SP_INT1, SP_ANYBARE]], [[SP_INT, SP_STR]], [[SP_ANYBARE, E]],
                                [[E, E, E]], [SP_INT], [SP_ANY], [[1]], [[None]], [(SP_INT,)],
                                [None], ["ab"], [{}], [E], [NIL], [[[SP_INT]]]])
    + _calls("len", LEN1 + LEN2),
    "dict": _calls("__call__", [[{}], [{"a": SP_INT}], [{"a": SP_INT1, "b": SP_STR}],
                                [{("$opt", "a"): SP_INT}],
                                [{"a": SP_INT, E: E}], [{E: E}], [{E: E, "a": SP_INT}], [{"a": SP_INT, E: E, "b": SP_STR}],
                                [{E: SP_INT}], [{"a": E}],
                                [{("$opt", "a"): E}],
                                [{"a": 1}], [{"a": None}], [{1: SP_INT, None: SP_INT}],
                                [[("a", SP_INT)]], [None], ["a"], [E], [NIL], [SP_INT]]),
    "any": _calls("__call__", [[SP_INT], [SP_MARKER_FIRST, SP_INT], [SP_INT, SP_STR], [SP_ANY, SP_INT], [SP_INT, None], [1],
                               [None], [E], [[SP_INT]], [NIL], [SP_INT, E]]),
    "bytes": _calls("__call__", [[b"ab"], [b""], ["ab"], [Zoo("bytearray")], [Zoo("bytes_subclass")],
                                 [None], [1], [E]]),
    "uuid4": _calls("__call__", [[U4], [U1], [U4_NCS], [U4_MS], [Zoo("uuid_nil")], [str(U4)], [None], [1], [E]]),
    "datetime": _calls("__call__", [[DT], [D], [DT.isoformat()], ["abc"], [""], ["2024-13-45"], [None], [0], [E],
                                    [Zoo("datetime_aware")]]),
    "date": _calls("__call__", [[D], [DT], ["2020-01-02"], ["abc"], [""], ["2024-13-45"], [None], [0], [E]]),
}
FAMILY = {"__call__": "value", "min": "min", "max": "max", "precision": "precision", "len": "len",
          "alphabet": "alphabet", "contains": "substr", "regex": "pattern"}


def classify(case, v):
    """Known finding: CPython refuses to convert an int of more than 4300 digits to text (sys.set_int_max_str_digits);
    every DeclarationError message prints the receiver, so refusing a call on a schema that holds such an int raises that
    ValueError instead.  Recognised by the interpreter's own message and a >4300-digit int among the arguments, nothing
    broader."""
    if v.key == "wrong-exception:ValueError" and "Exceeds the limit (4300 digits)" in v.detail:
        def huge(a):
            if isinstance(a, int) and not isinstance(a, bool):
                return abs(a) >= 10 ** 4300
            if isinstance(a, (list, tuple)):
                return any(huge(x) for x in a)
            return False
        if any(huge(a) for call in case["calls"] for a in call[1:]):
            return "int-beyond-str-conversion-limit"
    return v.key


KNOWN = {
    "int-beyond-str-conversion-limit": {"type": "int", "calls": [["__call__", 10 ** 5000], ["__call__", 1]]},
}


def exhaustive(tier):
    for typ, calls in UNIVERSE.items():
        yield {"type": typ, "calls": []}
        for c in calls:
            yield {"type": typ, "calls": [c]}
        for c1, c2 in itertools.product(calls, calls):
            yield {"type": typ, "calls": [c1, c2]}
        if typ in ("int", "float", "bool"):
            # value x precision x bound interplay needs three calls: small universes are enumerated too
            for chain in itertools.product(calls, calls, calls):
                yield {"type": typ, "calls": list(chain)}


def strategy(tier):
    @st.composite
    def case(draw):
        typ = draw(st.sampled_from([t for t in UNIVERSE if UNIVERSE[t]] + ["str", "list", "float"]))
        n = draw(st.integers(3, 4))
        uni = UNIVERSE[typ]
        calls = []
        for _ in range(n):
            c = draw(st.sampled_from(uni))
            if draw(st.integers(0, 4)) == 0:
                # replace one argument by a generic ill-typed / random one
                i = draw(st.integers(1, len(c) - 1))
                c = list(c)
                c[i] = draw(st.one_of(st.sampled_from(ILL), st.integers(-3, 40), values.zoo))
            calls.append(c)
        return {"type": typ, "calls": calls}
    return case()


def _arg(a):
    from d42 import optional
    if isinstance(a, dict) and "$spec" in a:
        return specs.build(a["$spec"])
    if isinstance(a, tuple) and len(a) == 2 and a[0] == "$opt":
        return optional(_arg(a[1]))
    if isinstance(a, Zoo):
        return values.realize(a)
    if isinstance(a, list):
        return [_arg(x) for x in a]
    if isinstance(a, tuple):
        return tuple(_arg(x) for x in a)
    if isinstance(a, dict):
        return {_arg(k): _arg(v) for k, v in a.items()}
    return a


def _r(x):
    try:
        return repr(x)
    except Exception as e:  # noqa  (printing is C06's business; the chain goes on)
        return f"<unprintable {type(x).__name__}: {type(e).__name__}>"


def _fixed_list_value(s):
    """list schema whose element list is fully fixed (no `...`) -> the list of the elements' fixed values; an
    element without a fixed value contributes a value it accepts (generated from it under a fixed seed)"""
    from d42 import fake, validate
    from niltype import Nil
    from .. import rng
    el = s.props.get("elements")
    if el is Nil or any(x is Ellipsis for x in el):
        return None
    out = []
    for x in el:
        v = x.props.get("value")
        if v is Nil:
            try:
                with rng.seeded(5):
                    v = fake(x)
                if validate(x, v).has_errors():
                    return None
            except Exception:  # noqa  (C01's business)
                return None
        out.append(v)
    return out


def check(case, ctx):
    from d42 import schema, validate
    from d42.declaration import DeclarationError, Schema
    from niltype import Nil

    s = getattr(schema, case["type"])
    declared = set()
    n_ok = 0
    for call in case["calls"]:
        name, args = call[0], [_arg(a) for a in call[1:]]
        before_c, before_r = canon.canon(s), _r(s)
        fam = FAMILY[name]
        try:
            out = getattr(s, name)(*args)
        except DeclarationError:
            out = None
        except Exception as e:  # noqa
            raise Violation(f"wrong-exception:{type(e).__name__}",
                            f"raised {e!r} (not DeclarationError): {before_r[:300]}.{name}{_r(tuple(args))[:600]}")
        if len(args) == 1 and name != "__call__":
            # one argument, passed by keyword instead of by position: same outcome
            import inspect
            try:
                pname = next(iter(inspect.signature(getattr(s, name)).parameters))
                try:
                    kw_out = getattr(s, name)(**{pname: args[0]})
                except DeclarationError:
                    kw_out = None
            except Violation:
                raise
            except Exception as e:  # noqa
                raise Violation(f"wrong-exception:{type(e).__name__}",
                                f"raised {e!r} (not DeclarationError): {before_r[:300]}.{name}({pname}={_r(args[0])[:600]})")
            if (kw_out is None) != (out is None) or (out is not None and isinstance(out, Schema) and canon.canon(kw_out) != canon.canon(out)):
                raise Violation("keyword-call-differs", f"{before_r}.{name}({_r(args[0])}) and .{name}({pname}={_r(args[0])}) differ: "
                                                        f"{_r(out)} / {_r(kw_out)}")
        if canon.canon(s) != before_c or _r(s) != before_r:
            raise Violation("receiver-changed", f"{before_r}.{name}{_r(tuple(args))} changed its receiver "
                                                f"to {s!r}")
        if out is None:
            ctx.label("call:rejected")
            continue
        if not isinstance(out, Schema):
            raise Violation("not-a-schema", f"{before_r}.{name}{_r(tuple(args))} returned {out!r}")
        if fam in declared:
            raise Violation("redeclaration-accepted",
                            f"{before_r}.{name}{_r(tuple(args))} succeeded although {fam} was declared")
        declared.add(fam)
        n_ok += 1
        ctx.label("call:accepted")
        s = out
        # self-consistency of the result
        v = s.props.get("value")
        if v is not Nil and not (isinstance(v, float) and math.isnan(v)):
            try:
                res = validate(s, v)
            except Exception as e:  # noqa
                raise Violation("validate-raises", f"validate({_r(s)}, its own value) raised {e!r}")
            if res.has_errors():
                raise Violation("fixed-value-rejected",
                                f"{_r(s)} carries value {v!r} which it rejects: {res.get_errors()!r}")
        if case["type"] == "list":
            lv = _fixed_list_value(s)
            if lv is not None:
                res = validate(s, lv)
                if res.has_errors():
                    raise Violation("fixed-elements-rejected",
                                    f"{_r(s)}: its own element values {lv!r} -> {res.get_errors()!r}")
    ctx.label("type:" + case["type"], "len:%d" % len(case["calls"]))
    if len(case["calls"]) >= 2 and n_ok >= 1:
        ctx.mark_nontrivial(case, sample_class=(case["type"], len(case["calls"]), n_ok))


MANIFEST = {
    "text": "All call chains of length<=2 over a per-parameter universe of valid, boundary, "
            "contradictory and ill-typed arguments are enumerated completely for all 13 types; "
            "longer chains (3-4) are sampled. Oracles: only DeclarationError may be raised, receiver "
            "unchanged (independent canon + repr), re-declaration rejected (model of declared "
            "families), fixed value / fixed element list validates against the result.",
    "design_ref": "DESIGN.md section 3, C10",
    "note": "argument universes are fixed in pbt/props/c10.py; arity errors and optional()'s own "
            "constructor errors are outside the domain; NaN values exempt",
    "technique": "exhaustive enumeration of short call chains + property-based testing (Hypothesis) of longer ones",
}
