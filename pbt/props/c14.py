"""C14 - from_native(value) denotes exactly that value.

case = {"value": plain value recipe, "perturbed": recipe one step away (any depth) | absent,
        "nonplain": recipe containing a non-plain member | absent, "rng": [selectors]}
"""
import copy
import datetime as _dt
import math
import uuid

from hypothesis import strategies as st

from .. import rng, specs, values
from ..codec import Zoo
from ..core import Violation

ID = "C14"
LEVEL = "exploration"
RULE = ("Hypothesis draws nested plain values (None, bool, int incl. >2**64, finite incl. tiny, and infinite floats, "
        "str incl. non-ASCII, bytes, v4 UUIDs, aware/naive datetimes, dates, lists, dicts with str/int/None/tuple/bytes "
        "keys; depth<=4); then either a single-step perturbation at a drawn depth (kind change, content +-1, purely "
        "relative float steps, one char, NFC/NFD twin, length +-1, key added/removed/renamed, element dropped / "
        "duplicated / swapped), or a variant with a non-plain member (Decimal, Fraction, complex, tuple, set, bytearray, "
        "non-v4 UUID, time, ..., Nil, function, object, Mapping / Sequence types that are not dict / list, compiled "
        "regex; `...` as a dict key, with a plain member or as the `...: ...` entry of schema notation) alone or nested, or a "
        "defaultdict / Counter holding the value's content minus one key whose member equals what the mapping invents for an "
        "absent key, or the same container object referenced twice inside one value. distinct = canonical "
        "JSON of the case; non-trivial = the perturbation (or the non-plain member) lies below the top level, or the "
        "value shares a sub-object")
ASSUMPTIONS = [
    "True/False vs 1/0 (value or key position) and float differences inside rel. 1e-6 are exempt, as the statement says",
    "instances of subclasses of plain types (int/str/dict subclasses) are not asserted either way; a datetime against a date "
    "(and the reverse) IS asserted to be rejected: no datetime equals a date",
    "NaN is outside the domain (it does not equal itself)",
]
BUDGET = {"quick": (2000, 4), "thorough": (30000, 16)}

NONPLAIN = ["decimal", "fraction", "complex", "tuple", "tuple_empty", "set", "frozenset", "bytearray",
            "memoryview", "range", "uuid1", "uuid3", "uuid5", "uuid_nil", "time", "timedelta",
            "ellipsis", "nil", "notimplemented", "function", "class", "module", "object", "opaque",
            "decimal_nan", "mappingproxy", "userdict", "chainmap", "userlist", "userstring", "re_compiled_icase"]

_scalars = st.one_of(
    st.none(), st.booleans(), specs.ints, specs.finite_floats,
    st.sampled_from([float("inf"), float("-inf")]),
    specs.texts, specs.bytes_, specs.uuid4s, specs.datetimes, specs.plain_dates,
)
_keys = st.one_of(st.sampled_from(["a", "b", "id", "", "é"]), st.integers(2, 5), st.none(),
                  st.just(("t", 2)), st.just(b"k"))


def _plain(depth):
    if depth <= 0:
        return _scalars
    sub = st.deferred(lambda: _plain(depth - 1))
    cont = st.one_of(st.lists(sub, min_size=1, max_size=3), st.dictionaries(_keys, sub, min_size=1, max_size=3),
                     st.lists(sub, max_size=3), st.dictionaries(_keys, sub, max_size=3))
    return st.integers(0, 3).flatmap(lambda i: _scalars if i == 0 else cont)


@st.composite
def _case(draw):
    v = draw(_plain(draw(st.sampled_from([0, 1, 2, 2, 3, 3, 4]))))
    case = {"value": v, "rng": draw(rng.script_strategy(6))}
    if draw(st.integers(0, 5)) == 0:
        case["shared"] = draw(st.sampled_from(["list", "dict"]))
        return case
    if draw(st.integers(0, 9)) == 0:
        # a list (8-12 members, possibly rows) whose members all compare equal although their kinds differ
        row = draw(st.sampled_from([[0, 0.0], [1, 1.0, True], [5, 5.0], [False, 0], [2.0, 2], [-1, -1.0]]))
        n = draw(st.integers(8, 12))
        members = [draw(st.sampled_from(row)) for _ in range(n)]
        if len({type(m) for m in members}) == 1:
            members[draw(st.integers(0, n - 1))] = next(x for x in row if type(x) is not type(members[0]))
        if draw(st.booleans()):
            members = [[m, "ok"] for m in members]
        v = members if draw(st.booleans()) else {"rows": members}
        case["value"] = v
    mode = draw(st.sampled_from(["perturb", "perturb", "perturb", "perturb", "nonplain", "nonplain", "missing-default"]))
    if mode == "missing-default":
        # a dict of the value holds a member equal to what a defaultdict / Counter invents for an absent key; the
        # perturbed value is such a mapping *without* that key (its key set differs)
        from ..codec import Wrapped
        ps = [p for p in values.paths(v) if isinstance(values.get_at(v, p), dict)]
        if not ps:
            v, ps = {"k": v}, [()]
        p = draw(st.sampled_from(ps))
        d = dict(values.get_at(v, p))
        kind, key, dflt = draw(st.sampled_from([("defaultdict", "hits", 0), ("defaultdict_list", "tags", []),
                                               ("counter", "n", 0), ("defaultdict", 7, 0)]))
        d[key] = dflt
        v = values.replace_at(v, p, d)
        less = dict(d)
        del less[key]
        case["value"] = v
        case["perturbed"] = values.replace_at(v, p, Wrapped(kind, less))
        case["depth"] = len(p) + 1
        case["missing_default"] = True
    elif mode == "perturb":
        w, path = draw(values.perturb(v))
        case["perturbed"] = w
        case["depth"] = len(path)
    else:
        item = Zoo(draw(st.sampled_from(NONPLAIN)))
        ps = [p for p in values.paths(v)]
        p = draw(st.sampled_from(ps))
        target = values.get_at(v, p)
        if isinstance(target, list) and draw(st.booleans()):
            i = draw(st.integers(0, len(target)))
            case["nonplain"] = values.replace_at(v, p, target[:i] + [item] + target[i:])
            case["depth"] = len(p) + 1
        elif isinstance(target, dict) and draw(st.booleans()):
            w = dict(target)
            how = draw(st.sampled_from(["value", "value", "ellipsis-entry", "ellipsis-key"]))
            if how == "value":
                w["zoo"] = item
            elif how == "ellipsis-entry":
                w[...] = ...                # schema notation ("more keys may follow"), not part of a plain value
            else:
                w[...] = draw(_scalars)
            # (keys of other hashable kinds - tuples, frozensets, Decimals - are not judged: the statement lists the
            # kinds of values, and the schema made for such a dict does denote exactly that dict)
            case["nonplain"] = values.replace_at(v, p, w)
            case["depth"] = len(p) + 1
        else:
            case["nonplain"] = values.replace_at(v, p, item)
            case["depth"] = len(p)
    return case


def strategy(tier):
    return _case()


def exhaustive(tier):
    """pairs of different values that are easily taken for one another, bare and nested"""
    import datetime as dt
    pairs = [("caf\u00e9", "cafe\u0301"), ("\u00c5", "\u212b"), ("\u2126", "\u03a9"), ("a", "\u0430"), ("ab", "ab\n"), ("", "\x00"),
             (1, 1.0), (0, 0.0), (2 ** 53, float(2 ** 53)), (0.0, -0.0) if False else (1.5, 1.5000000001), (b"a", "a"), (None, False), (0, None),
             ([], ()), ([1], [1.0]), ({}, []), ({"a": 1}, {"a": 1.0}), ({"a": 1}, {"a": 1, "b": None}), ({1: "x"}, {"1": "x"}),
             (dt.date(2020, 1, 2), dt.datetime(2020, 1, 2)), (dt.datetime(2020, 1, 2, tzinfo=dt.timezone.utc), dt.datetime(2020, 1, 2)),
             (dt.datetime(2020, 1, 2, 3, tzinfo=dt.timezone.utc), dt.datetime(2020, 1, 2, 4, tzinfo=dt.timezone.utc))]
    for u, v in pairs:
        for a, b in ((u, v), (v, u)):
            if isinstance(a, tuple):
                continue        # (a tuple is not a plain value: only ever the perturbed side)
            yield {"value": a, "rng": [0.5], "perturbed": b, "depth": 0}
            yield {"value": [a, a], "rng": [0.5], "perturbed": [a, b], "depth": 1}
            yield {"value": {"k": {"n": a}}, "rng": [0.5], "perturbed": {"k": {"n": b}}, "depth": 2}


def same(a, b):
    """type-strict deep equality"""
    if type(a) is not type(b):
        return False
    if isinstance(a, list):
        return len(a) == len(b) and all(same(x, y) for x, y in zip(a, b))
    if isinstance(a, dict):
        if len(a) != len(b):
            return False
        kb = {(type(k), k): v for k, v in b.items()}
        return all((type(k), k) in kb and same(v, kb[(type(k), k)]) for k, v in a.items())
    return a == b


def exempt(a, b):
    """equal up to the two exemptions (bool~int, float tolerance) or an undecided subclass zone"""
    if isinstance(a, bool) or isinstance(b, bool):
        return isinstance(a, int) and isinstance(b, int) and int(a) == int(b)
    if isinstance(a, float) and isinstance(b, float):
        if a == b:
            return True
        if math.isinf(a) or math.isinf(b) or math.isnan(a) or math.isnan(b):
            return False
        return abs(a - b) < 1e-6 * max(abs(a), abs(b))     # relative only (isclose has no absolute part)
    if type(a) is not type(b):
        return False
    if isinstance(a, list):
        return len(a) == len(b) and all(exempt(x, y) for x, y in zip(a, b))
    if isinstance(a, dict):
        if len(a) != len(b):
            return False
        for k, v in a.items():
            if k not in b or not exempt(v, b[k]):
                return False
        return True
    return a == b


def check(case, ctx):
    from d42 import fake, validate
    from d42.declaration import Schema
    from d42.utils import from_native

    v = values.realize(case["value"])
    if case.get("shared") and isinstance(v, (list, dict)):
        # a legitimate plain value may reference one (acyclic) container twice
        v = [v, v] if case["shared"] == "list" else {"first": v, "again": {"nested": v}}
    snapshot = copy.deepcopy(v)
    try:
        S = from_native(v)
    except Exception as e:  # noqa
        raise Violation("plain-refused", f"from_native({v!r}) raised {e!r}")
    if not isinstance(S, Schema):
        raise Violation("not-a-schema", repr(S))
    if not same(v, snapshot):
        raise Violation("input-mutated", f"from_native changed its argument to {v!r}")
    res = validate(S, copy.deepcopy(v))
    if res.has_errors():
        raise Violation("rejects-own-value", f"from_native({v!r}) rejects it: {res.get_errors()!r}")
    with rng.scripted(case["rng"]):
        try:
            g = fake(S)
        except Exception as e:  # noqa
            raise Violation("fake-raises", f"fake(from_native({v!r})) raised {e!r}")
    if not same(g, v):
        raise Violation("generates-other", f"fake(from_native({v!r})) = {g!r}")
    if type(v) is list:
        # the same schema with a length bound that changes nothing: still denotes exactly v
        n = len(v)
        for how, refined in (("len(..., n+5)", lambda: S.len(..., n + 5)), ("len(0, n+5)", lambda: S.len(0, n + 5)), ("len(n)", lambda: S.len(n)),
                             ("len(n, ...)", lambda: S.len(n, ...))):
            try:
                S2 = refined()
            except Exception:  # noqa  (a declaration rule may refuse it: C10's business)
                continue
            if validate(S2, copy.deepcopy(v)).has_errors():
                raise Violation("rejects-own-value", f"from_native({v!r}).{how} rejects the value")
            for script in (case["rng"], [1.0] * 6, [0.0] * 6):
                with rng.scripted(script):
                    try:
                        g2 = fake(S2)
                    except Exception as e:  # noqa
                        raise Violation("fake-raises", f"fake(from_native({v!r}).{how}) raised {e!r}")
                if not same(g2, v):
                    raise Violation("generates-other", f"fake(from_native({v!r}).{how}) = {g2!r}")
        ctx.label("redundant-length-bound")
    ctx.label("top:" + type(v).__name__)
    if case.get("shared"):
        ctx.label("shared-subobject")
        ctx.mark_nontrivial(case, sample_class="shared")
        return
    depth = case.get("depth", 0)

    if "perturbed" in case:
        w = values.realize(case["perturbed"])
        if same(w, v):
            ctx.label("perturbation-is-identity")
            return
        if not case.get("missing_default") and (exempt(w, v) or values.has_zoo(case["perturbed"])):
            ctx.label("perturbation-exempt")
            return
        before = copy.deepcopy(w)
        try:
            res = validate(S, w)
        except Exception as e:  # noqa
            raise Violation("validate-raises", f"validate(from_native({v!r}), {w!r}) raised {e!r}")
        if not res.has_errors():
            raise Violation("accepts-different-value",
                            f"from_native({v!r}) accepts the different value {before!r}")
        if case.get("missing_default"):
            ctx.label("mapping-with-default-lacking-a-key")
            if w != before:
                raise Violation("validated-value-mutated", f"validate(from_native({v!r}), ...) changed the value {before!r} into {w!r}")
        ctx.label("perturbed-rejected", "depth:%d" % min(depth, 3))
        if depth >= 1:
            ctx.mark_nontrivial(case, sample_class=("perturb", min(depth, 3), type(v).__name__))
    elif "nonplain" in case:
        x = values.realize(case["nonplain"])
        try:
            out = from_native(x)
        except ValueError:
            ctx.label("nonplain-refused", "depth:%d" % min(depth, 3))
            if depth >= 1:
                ctx.mark_nontrivial(case, sample_class=("nonplain", min(depth, 3)))
            return
        except Exception as e:  # noqa
            raise Violation("nonplain-wrong-exception", f"from_native({x!r}) raised {e!r}, not ValueError")
        raise Violation("nonplain-accepted", f"from_native({x!r}) returned {out!r}")


MANIFEST = {
    "text": "Generated-input search over nested plain values: the schema must accept and regenerate "
            "the value and reject every generated single-step perturbation at every depth; non-plain "
            "members must be refused with ValueError. Finds missing recursion, relaxed/optional "
            "conversions and dispatch-order mistakes on the explored values; no absence claim.",
    "design_ref": "DESIGN.md section 3, C14",
    "note": "oracle is the statement itself (type-strict deep equality with the two named exemptions); "
            "subclass instances and NaN not asserted",
    "technique": "property-based testing (Hypothesis), metamorphic oracle (perturbation must flip the verdict)",
}
