"""C18 - rollout is the inverse of flattening separator-joined keys.

case = {"tree": node, "sep": str, "order": [ints], "relaxed": bool}
node = ["d", [[key, node], ...]]  |  ["l", payload, is_optional]
Oracle: our own flatten() (written from the statement) then d42.utils.rollout must give back a
mapping equal to the nested original, with every leaf the *same object*, optional markers on
exactly the same leaves, inner keys plain strings, the flat input unmodified; and rollout of
the nested (separator-free) mapping is the identity.
"""
from hypothesis import strategies as st

from ..core import Violation

ID = "C18"
LEVEL = "exploration"
RULE = ("Hypothesis draws a nested mapping (depth<=4, fan-out 1-5, keys from an alphabet incl. '', non-ASCII, and every punctuation character that is "
        "not part of the separator in use ('.', '/', ':', backslash - also as the last character of an inner name -, regex "
        "metacharacters), leaf payloads int/str/None/list/schema/.../bool, optional on any subset of "
        "leaves - an optional leaf may share its name with a sibling branch -, optional top-level ...: ...), a 1-3 char "
        "separator and a permutation of the flat keys; distinct = canonical JSON of the case; non-trivial = depth>=2 and "
        "some sibling group is split (non-adjacent) by the permutation")
ASSUMPTIONS = [
    "no character of the separator in use occurs inside a key (otherwise the flat form is ambiguous); characters of other separators may",
    "leaf payloads are never dicts and inner dicts are never empty (neither has a flat form)",
]
BUDGET = {"quick": (1500, 2), "thorough": (20000, 16)}

KEY_ALPHABET = "abAB01 _éß"
SEP_ALPHABET = "./:|-"
# a key may hold any character that is not part of the separator in use: other punctuation ("v1.2" under "/"),
# a backslash (also as the last character of an inner name), regex metacharacters
PUNCT = "./:|-\\*+()[$^"


def _keys_for(sep):
    alphabet = KEY_ALPHABET + "".join(ch for ch in PUNCT if ch not in sep)
    return st.one_of(st.text(alphabet=KEY_ALPHABET, min_size=0, max_size=3), st.text(alphabet=alphabet, min_size=0, max_size=3),
                     st.text(alphabet=alphabet, min_size=1, max_size=4))
_payload = st.one_of(
    st.integers(-3, 3), st.text(alphabet="xy.", max_size=3), st.none(),
    st.lists(st.integers(0, 2), max_size=2), st.just({"$schema": "int"}), st.just(...),
    st.booleans(),
)
_leaf = st.tuples(st.just("l"), _payload, st.booleans()).map(list)


def _node(depth, sep=SEP_ALPHABET):
    if depth == 0:
        return _leaf
    child = st.one_of(_leaf, st.deferred(lambda: _node(depth - 1, sep)))
    base = st.dictionaries(_keys_for(sep), child, min_size=1, max_size=5).map(
        lambda d: ["d", [[k, v] for k, v in d.items()]])

    @st.composite
    def with_twin(draw):
        # `optional("user")` and "user" are two different keys of one mapping: an optional leaf may
        # share its name with a sibling branch (or required leaf)
        node = draw(base)
        if draw(st.integers(0, 3)) == 0:
            plain = [k for k, c in node[1] if not (c[0] == "l" and c[2])]
            if plain:
                k = draw(st.sampled_from(plain))
                node = ["d", node[1] + [[k, ["l", draw(_payload), True]]]]
        return node
    return with_twin()


def strategy(tier):
    sep = st.text(alphabet=SEP_ALPHABET, min_size=1, max_size=3)

    def with_sep(sp):
        tree = st.integers(1, 4).flatmap(lambda d: _node(d, sp)).filter(lambda n: n[0] == "d")
        return st.fixed_dictionaries({
            "tree": tree, "sep": st.just(sp),
            "order": st.lists(st.integers(0, 1000), min_size=6, max_size=40),
            "relaxed": st.booleans(),
        })
    return sep.flatmap(with_sep)


def _payload_obj(p):
    if isinstance(p, dict) and "$schema" in p:
        from d42 import schema
        return schema.int
    if isinstance(p, list):
        return list(p)
    return p


def _realize(node):
    """node -> same shape with payload objects realised (fresh objects)."""
    if node[0] == "l":
        return ["l", _payload_obj(node[1]), node[2]]
    return ["d", [[k, _realize(c)] for k, c in node[1]]]


def _leaves(node, path=()):
    if node[0] == "l":
        yield path, node[1], node[2]
    else:
        for k, c in node[1]:
            yield from _leaves(c, path + (k,))


def _nested(node, optional):
    if node[0] == "l":
        raise AssertionError
    out = {}
    for k, c in node[1]:
        if c[0] == "l":
            out[optional(k) if c[2] else k] = c[1]
        else:
            out[k] = _nested(c, optional)
    return out


def _has_twin(node):
    if node[0] == "l":
        return False
    names = [k for k, _ in node[1]]
    return len(names) != len(set(names)) or any(_has_twin(c) for _, c in node[1])


def _depth(node):
    return 0 if node[0] == "l" else 1 + max(_depth(c) for _, c in node[1])


def _compare(got, want, path, optional):
    if not isinstance(got, dict):
        raise Violation("not-a-dict", f"at {path}: {got!r}")
    if len(got) != len(want):
        raise Violation("key-set", f"at {path}: got keys {list(got)!r}, want {list(want)!r}")
    gk = {(type(k) is optional, k.key if type(k) is optional else k): k for k in got}
    for wk, wv in want.items():
        ident = (type(wk) is optional, wk.key if type(wk) is optional else wk)
        if ident not in gk:
            raise Violation("key-set", f"at {path}: key {wk!r} missing; got {list(got)!r}")
        gv = got[gk[ident]]
        if isinstance(wv, dict):
            _compare(gv, wv, path + (wk,), optional)
        elif gv is not wv:
            raise Violation("leaf-identity", f"at {path + (wk,)}: {gv!r} is not the original {wv!r}")


def check(case, ctx):
    from d42 import optional
    from d42.utils import rollout

    tree = _realize(case["tree"])
    sep = case["sep"]
    leaves = list(_leaves(tree))
    # every separator-free string is a legitimate key name, wrapped in optional or not ('' and blanks included)
    for path, _, opt in leaves:
        if opt:
            for name in (path[-1], sep.join(path)):
                try:
                    optional(name)
                except Exception as e:  # noqa
                    raise Violation("optional-raises", f"optional({name!r}) raised {e!r}")
    flat_items = []
    for path, payload, opt in leaves:
        fk = sep.join(path)
        flat_items.append((optional(fk) if opt else fk, payload, path))
    if case["relaxed"]:
        flat_items.append((..., ..., None))
    # permutation from the order seeds (deterministic, Hypothesis-owned)
    order = list(case["order"])
    idx = list(range(len(flat_items)))
    perm = []
    for i, _ in enumerate(list(idx)):
        j = order[i] % len(idx) if i < len(order) else 0
        perm.append(idx.pop(j))
    flat_items = [flat_items[i] for i in perm]
    flat = {k: v for k, v, _ in flat_items}
    if len(flat) != len(flat_items):
        raise AssertionError("flat keys collide: generator bug")
    snapshot = [(k, id(v)) for k, v in flat.items()]

    want = _nested(tree, optional)
    if case["relaxed"]:
        want[...] = ...

    try:
        got = rollout(flat, separator=sep)
    except Exception as e:  # noqa
        raise Violation("raises", f"rollout raised {e!r} on {flat!r} sep={sep!r}")
    if got != want:
        raise Violation("not-equal", f"rollout({flat!r}, separator={sep!r}) = {got!r}, want {want!r}")
    _compare(got, want, (), optional)
    if [(k, id(v)) for k, v in flat.items()] != snapshot:
        raise Violation("input-mutated", f"flat mapping changed: {flat!r}")

    # identity on an already nested, separator-free mapping (default separator '.', keys have no '.')
    nested_in = _nested(tree, optional)
    if case["relaxed"]:
        nested_in[...] = ...
    dotted = any("." in k for p, _, _ in leaves for k in p)      # not separator-free for the default separator
    try:
        got2 = rollout(nested_in) if (sep != "." and not dotted) else rollout(nested_in, separator=sep)
        got3 = rollout(nested_in, separator=sep)
    except Exception as e:  # noqa
        raise Violation("identity-raises", f"rollout raised {e!r} on nested {nested_in!r}")
    for g in (got2, got3):
        if g != want:
            raise Violation("identity", f"rollout({nested_in!r}) = {g!r}")
        _compare(g, want, (), optional)
    if nested_in != want:
        raise Violation("input-mutated", "nested input changed")

    # labels / non-triviality
    depth = _depth(tree)
    heads = [p[0] for _, _, p in flat_items if p is not None and len(p) > 1]
    split = False
    seen_last = {}
    pos = 0
    for _, _, p in flat_items:
        if p is not None and len(p) > 1:
            h = p[0]
            if h in seen_last and seen_last[h] != pos - 1:
                split = True
            seen_last[h] = pos
        pos += 1
    ctx.label(f"depth={depth}", f"seplen={len(sep)}")
    if split:
        ctx.label("split-sibling-group")
    if any(o for _, _, o in leaves):
        ctx.label("has-optional")
    if case["relaxed"]:
        ctx.label("relaxed")
    if any("" in p for p, _, _ in leaves):
        ctx.label("empty-key")
    if any(ch in k for p, _, _ in leaves for k in p for ch in PUNCT):
        ctx.label("punctuation-in-key")
    if any(k.endswith("\\") for p, _, _ in leaves for k in p[:-1]):
        ctx.label("inner-name-ends-with-backslash")
    if _has_twin(tree):
        ctx.label("optional-leaf-named-like-sibling")
    if depth >= 2 and split and heads:
        ctx.mark_nontrivial(case, sample_class=(depth, len(sep)))


def require(ctx, tier):
    from ..core import HarnessError
    for lab in ("split-sibling-group", "has-optional", "relaxed", "depth=3", "empty-key"):
        if not ctx.labels.get(lab):
            raise HarnessError(f"C18 generator never produced class {lab!r}")

MANIFEST = {
    "text": "Generated-input search: thousands of nested mappings x separators x flat-key orders, "
            "round-trip oracle flatten->rollout with leaf identity; finds any loss, regrouping or "
            "optional-marker error on the explored shapes; no absence claim beyond them.",
    "design_ref": "DESIGN.md section 3, C18",
    "note": "trusts our own flatten() (10 lines, written from the statement) and Python dict equality; "
            "separator disjoint from the key alphabet; leaves are not dicts",
    "technique": "property-based testing (Hypothesis), round-trip oracle",
}
