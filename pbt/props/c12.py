"""C12 - substitution fails only with SubstitutionError, never returns a dead schema, is idempotent.

case = {"spec", "value" (recipe: conforming / partial / near / perturbed / extra keys / zoo-injected /
        with `...` / junk), "full", "kind", "rng"}
"""
from .. import canon, rng, specs, substgen, values
from ..core import HarnessError, Violation

ID = "C12"
LEVEL = "exploration"
RULE = ("exhaustive part: 13 targets with untyped positions (any, undeclared / relaxed dict, untyped lists, windows, alias) x 21 "
        "values that are not plain (`...` as key or member, tuples, sets, Decimal, mappings that are not dicts ...) x 8 embeddings. "
        "Generated part: Hypothesis draws a hereditarily satisfiable SchemaSpec (depth<=3, all list forms incl. "
        "contains-windows, relaxed dicts, any, alias) and a value: complete or partial conforming "
        "value, spec-aware near-miss, generic perturbation, extra keys added at drawn depths, a zoo "
        "object injected at a drawn position (unconvertible members inside and outside matched "
        "windows), a value containing `...` (as a member or as a dict key), a list written as a tuple, one container object at two positions, or junk. Oracle: substitute returns a Schema or raises "
        "SubstitutionError, nothing else; a returned schema can be generated from (scripted RNG) and "
        "accepts what it generates; for plain values (no `...`, no NaN) substituting again succeeds "
        "with identical canon and ==. distinct = canonical JSON of (spec, value); non-trivial = the "
        "value passes the lenient top-level validator but holds a member that cannot be substituted, "
        "or substitution succeeds and the result keeps freedom (partial value)")
ASSUMPTIONS = [
    "usable-result clause is asserted for satisfiable schemas only (an unsatisfiable original stays unsatisfiable)",
    "the open C01 finding (empty alphabet cannot be generated from) is not re-reported here",
    "a value containing NaN pins a float that equals nothing (NaN != NaN); the usable-result and idempotence clauses are not asserted for it",
]
BUDGET = {"quick": (1500, 4), "thorough": (25000, 16)}


def strategy(tier):
    return substgen.subst_case(kinds=substgen.HOSTILE_KINDS, sat=True)


def exhaustive(tier):
    """every untyped position (where the value is converted with from_native rather than validated member by member)
    x every small value that is not a plain one, bare and one / two levels down"""
    from ..codec import Zoo
    any_, dict_, list_ = {"t": "any"}, {"t": "dict"}, {"t": "list", "form": "untyped"}
    targets = [any_, dict_, list_, {"t": "dict", "entries": [], "relaxed": True}, {"t": "list", "form": "ellipsis", "elems": []},
               {"t": "any", "alts": [dict_, list_]}, {"t": "any", "alts": [{"t": "none"}, any_]},
               {"t": "dict", "entries": [{"key": "a", "opt": False, "spec": any_}], "relaxed": False},
               {"t": "dict", "entries": [{"key": "a", "opt": True, "spec": dict_}], "relaxed": True},
               {"t": "list", "form": "typed", "elem": any_}, {"t": "list", "form": "head", "elems": [{"t": "int"}]},
               {"t": "list", "form": "contains", "elems": [{"t": "int"}, {"t": "int"}]},
               {"t": "alias", "name": "T", "spec": any_}]
    odd = [{...: 1}, {...: ...}, {"k": 1, ...: ...}, {...: None, "k": 1}, ..., (1, 2), (), Zoo("set"), Zoo("frozenset"), Zoo("decimal"),
           Zoo("object"), Zoo("nil"), Zoo("bytearray"), Zoo("uuid1"), Zoo("mappingproxy"), Zoo("userdict"), Zoo("range"),
           Zoo("nan"), Zoo("int_subclass"), Zoo("dict_subclass"), Zoo("defaultdict")]
    fl = [{"t": "float", "precision": 2, "order": ["precision"]}, {"t": "float", "precision": 15, "order": ["precision"]},
          {"t": "float", "value": float("inf"), "precision": 2, "order": ["precision"]},
          {"t": "float", "value": 1.7e308, "precision": 3, "order": ["precision"]},
          {"t": "float", "min": 0.0, "precision": 1, "order": ["min", "precision"]}, {"t": "float"}, {"t": "float", "value": 1.0}]
    for spec in fl:
        for x in (float("inf"), float("-inf"), 1e306, 1.7976931348623157e308, -1e308, 1.0, 0.0, Zoo("nan"), 5e-324):
            for sp, v in ((spec, x), ({"t": "list", "form": "typed", "elem": spec}, [x, 1.0]),
                          ({"t": "dict", "entries": [{"key": "r", "opt": False, "spec": spec}], "relaxed": False}, {"r": x}),
                          ({"t": "any", "alts": [spec, {"t": "none"}]}, x)):
                yield {"spec": sp, "value": v, "full": None, "kind": "float-extremes", "rng": [0.5], "share": False}
    # lists with a declared length, substituted with an open-ended value that holds too many / just enough / too few members
    for lf in (["eq", 2], ["max", 2], ["range", 1, 2], ["min", 2], ["eq", 0]):
        for base in ({"t": "list", "form": "typed", "elem": {"t": "int"}, "len": lf}, {"t": "list", "form": "untyped", "len": lf}):
            for vals in ([1, 2, 3, ...], [..., 1, 2, 3], [1, ...], [..., 1], [1, 2, ...], [...], [1, 2, 3, 4, 5, ...]):
                for sp, v in ((base, vals), ({"t": "dict", "entries": [{"key": "items", "opt": False, "spec": base}], "relaxed": False}, {"items": vals})):
                    yield {"spec": sp, "value": v, "full": None, "kind": "open-ended-vs-len", "rng": [0.5, 0.0, 1.0], "share": False}
    for spec in targets:
        for x in odd:
            for v in (x, {"a": x}, [x], [1, 2, x], {"a": {"b": x}}, [[x]], {"a": [x, 1]}, [1, x, 1, 2]):
                yield {"spec": spec, "value": v, "full": None, "kind": "odd-at-untyped-position", "rng": [0.5], "share": False}


def _r(x):
    try:
        return repr(x)
    except Exception as e:  # noqa
        return f"<unprintable {type(x).__name__}: {e!r}>"


def _illegal_ellipsis(R):
    """does the schema hold a bare `...` where the DSL would not allow one: as a dict member, or
    inside an element list at a position that is not first/last (or as `[..., ...]`)?"""
    from d42.declaration import Schema
    from niltype import Nil
    stack = [R]
    while stack:
        s = stack.pop()
        if not isinstance(s, Schema):
            continue
        for name in s.props:
            val = s.props.get(name)
            if val is Nil:
                continue
            if isinstance(val, Schema):
                stack.append(val)
            elif name == "keys" and isinstance(val, dict):
                for k, pair in val.items():
                    if k is Ellipsis:
                        continue
                    if pair[0] is Ellipsis:
                        return True
                    stack.append(pair[0])
            elif isinstance(val, (list, tuple)):
                if name == "elements":
                    n = len(val)
                    for i, x in enumerate(val):
                        if x is Ellipsis and i not in (0, n - 1):
                            return True
                    if n == 2 and val[0] is Ellipsis and val[1] is Ellipsis:
                        return True
                stack.extend(x for x in val if isinstance(x, Schema))
    return False


def classify(case, v):
    """Known finding: substitution copies `...` placeholders from the value into the result without
    the placement rules of the DSL (dict member, middle of an element list); such a result cannot be
    printed, generated from or validated against.  Recognised by an illegally placed bare `...` in
    the result, nothing broader."""
    if v.key in ("result-not-generatable", "result-validate-raises", "not-idempotent:raises",
                 "result-rejects-own-value") and substgen.has_ellipsis(case["value"]):
        try:
            from d42 import substitute
            R = substitute(specs.build(case["spec"]), values.realize(case["value"]))
            if _illegal_ellipsis(R):
                return "ellipsis-copied-into-schema"
        except Exception:  # noqa
            pass
    return v.key


KNOWN = {
    "ellipsis-copied-into-schema": {"spec": {"t": "dict"}, "value": {"a": ...}, "full": None,
                                    "kind": "ellipsis", "rng": []},
}


def _empty_alphabet(spec):
    return any(s["t"] == "str" and s.get("alphabet") == "" and "value" not in s
               for s, _ in specs.walk(spec))


def _own_substitutors(S, case, ctx):
    """the exception contract holds for substitutors one constructs oneself, also with a plain (strict) Validator"""
    from d42.substitution import Substitutor, SubstitutorValidator
    from d42.substitution.errors import SubstitutionError
    from d42.validation import Validator
    for label, make in (("Substitutor(validator=Validator())", lambda: Substitutor(validator=Validator())),
                        ("Substitutor(validator=SubstitutorValidator())", lambda: Substitutor(validator=SubstitutorValidator()))):
        try:
            S.__accept__(make(), value=substgen.realize(case))
        except SubstitutionError:
            pass
        except Exception as e:  # noqa
            raise Violation(f"wrong-exception:{type(e).__name__}",
                            f"S.__accept__({label}, value=...) with S = {_r(S)} raised {e!r} (not SubstitutionError)")
    ctx.label("own-substitutors-checked")


def check(case, ctx):
    from d42 import fake, substitute, validate
    from d42.declaration import DeclarationError, Schema
    from d42.substitution import SubstitutorValidator
    from d42.substitution.errors import SubstitutionError
    spec = case["spec"]
    try:
        S = specs.build(spec, share={} if case.get("share") else None)
    except DeclarationError as e:
        ctx.skip_undeclarable(None, e)
        return
    v = substgen.realize(case)
    before = canon.canon(S)
    ctx.label("kind:" + case["kind"])
    try:
        lenient_ok = not S.__accept__(SubstitutorValidator(), value=v).has_errors()
    except Exception:  # noqa
        lenient_ok = None
    try:
        R = substitute(S, v)
    except SubstitutionError:
        ctx.label("refused")
        _own_substitutors(S, case, ctx)
        if lenient_ok:
            ctx.label("refused-after-lenient-validation-passed")
            ctx.mark_nontrivial({"spec": spec, "value": case["value"]}, sample_class=("refused", case["kind"]))
        return
    except Exception as e:  # noqa
        raise Violation(f"wrong-exception:{type(e).__name__}",
                        f"substitute({_r(S)}, {_r(v)}) raised {e!r} (not SubstitutionError)")
    if not isinstance(R, Schema):
        raise Violation("not-a-schema", f"substitute({S!r}, {v!r}) returned {R!r}")
    _own_substitutors(S, case, ctx)
    if canon.canon(S) != before:
        raise Violation("receiver-changed", f"substitute changed {S!r}")
    ctx.label("substituted")

    # usable: can be generated from, and accepts what it generates
    if substgen.has_nan(case["value"]):
        ctx.label("nan-pinned(usable clause not asserted)")   # NaN != NaN: see ASSUMPTIONS
    elif not _empty_alphabet(spec):
        try:
            with rng.scripted(case["rng"]):
                g = fake(R)
        except Exception as e:  # noqa
            raise Violation("result-not-generatable", f"({_r(S)} % {_r(v)}) = {_r(R)}; fake raised {e!r}")
        try:
            res = validate(R, g)
        except Exception as e:  # noqa
            raise Violation("result-validate-raises", f"validate({_r(R)}, {_r(g)}) raised {e!r}")
        if res.has_errors():
            raise Violation("result-rejects-own-value", f"({_r(S)} % {_r(v)}) = {_r(R)}; fake -> {_r(g)}: "
                                                        f"{_r(res.get_errors())}")
    # idempotent for plain values
    plain = not substgen.has_ellipsis(case["value"]) and not substgen.has_nan(case["value"]) \
        and not values.has_zoo(case["value"])
    if plain:
        try:
            R2 = substitute(R, v)
        except Exception as e:  # noqa
            raise Violation("not-idempotent:raises", f"R = {_r(S)} % {_r(v)} = {_r(R)}; R % v raised {e!r}")
        if canon.canon(R2) != canon.canon(R):
            raise Violation("not-idempotent:differs", f"R = {R!r}; R % v = {R2!r}")
        if not (R2 == R) or (R2 != R):
            raise Violation("not-idempotent:eq", f"(R % v) == R is False for R = {R!r}")
        ctx.label("idempotence-checked")
    if case["kind"] in ("partial", "extra-keys") or plain and canon.canon(R) != before:
        ctx.mark_nontrivial({"spec": spec, "value": case["value"]}, sample_class=("ok", case["kind"]))


def require(ctx, tier):
    for lab in ("refused", "substituted", "idempotence-checked", "kind:zoo", "kind:ellipsis",
                "kind:extra-keys", "kind:partial", "refused-after-lenient-validation-passed"):
        if not ctx.labels.get(lab):
            raise HarnessError(f"C12 generator never produced class {lab!r}")


# thorough tier: libFuzzer (atheris) also drives this strategy with coverage feedback from d42
COVERAGE_GUIDED = {"runs": 60000, "seconds": 120}

MANIFEST = {
    "text": "Generated-input search over schemas x hostile/partial/convertible-or-not values: the only "
            "permitted failure is SubstitutionError; every returned schema must be generatable and "
            "self-accepting; re-substitution is the identity (independent canon and ==).",
    "design_ref": "DESIGN.md section 3, C12",
    "note": "satisfiable originals only for the usable-result clause; zoo objects are stdlib data / opaque objects",
    "technique": "property-based testing (Hypothesis), exception-contract + idempotence oracles",
}
