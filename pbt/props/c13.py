"""C13 - schema combinators mean what their parts mean.

case = {"kind": "or" | "add" | "required" | "alias" | "access", ...specs..., "values": [recipes],
        "rng": [selectors]}
"""
from hypothesis import strategies as st

from .. import canon, model, rng, specs, values
from ..core import HarnessError, Violation

ID = "C13"
LEVEL = "exploration"
RULE = ("Hypothesis draws operand specs (declared dict specs with overlapping keys, differing "
        "optional flags and relaxed markers; arbitrary alternatives incl. nested unions; alias "
        "targets) and values conforming to either operand, to the expected combination, and their "
        "near-misses. Oracles: a|b and schema.any(a,b) accept the union and flatten associatively; "
        "d1+d2 agrees with the reference model of the right-wins merge and with the merged mapping "
        "declared through the DSL; make_required(d,K) accepts what d accepts with K present; alias "
        "gives identical errors/generation/substitution; d[k] and iteration expose the declared "
        "members. distinct = canonical JSON of the case; non-trivial = overlapping operands (shared "
        "key with different optionality or one relaxed operand / >=2 alternatives / optional keys "
        "made required) and >=1 probe value on each side of the verdict")
ASSUMPTIONS = ["operands of + are declared dict schemas (as the quantifier says)",
               "make_required is called with declared keys only",
               "verdicts are compared library-vs-library and against pbt/model.py where it is decisive"]
BUDGET = {"quick": (1200, 4), "thorough": (20000, 16)}


def _ok(S, v, what):
    from d42 import validate
    try:
        return not validate(S, v).has_errors()
    except Exception as e:  # noqa
        raise Violation("validate-raises", f"{what}: validate({S!r}, {v!r}) raised {e!r}")


@st.composite
def _declared_dict(draw, depth=1):
    d = draw(specs.dict_spec(depth, True, dict(alias=False, patterns=False, custom=False,
                                              derived=False)))
    if "entries" not in d:
        d = {"t": "dict", "entries": [], "relaxed": draw(st.booleans())}
    return d


def _probe_values(draw, sps, n=2):
    out = []
    for sp in sps:
        for _ in range(n):
            try:
                out.append(draw(values.conforming(sp)))
                out.append(draw(values.near(sp))[0])
            except values.Unsat:
                break
    out.append(draw(values.junk))
    return out


@st.composite
def _case(draw):
    kind = draw(st.sampled_from(["or", "add", "add", "required", "alias", "access"]))
    c = {"kind": kind, "rng": draw(rng.script_strategy(20))}
    sub = specs.spec_strategy(depth=draw(st.sampled_from([0, 1, 2])), sat=True)
    if kind == "or":
        c["a"], c["b"], c["c"] = draw(sub), draw(sub), draw(sub)
        if draw(st.integers(0, 2)) == 0:
            # a large union: three unions of three alternatives each
            leaf = specs.spec_strategy(depth=draw(st.sampled_from([0, 0, 1])), sat=True, alias=False)
            for k in "abc":
                c[k] = {"t": "any", "alts": draw(st.lists(leaf, min_size=3, max_size=3))}
        if draw(st.integers(0, 4)) == 0:
            # one operand is a bare schema.any (no alternatives of its own: nothing to flatten, accepts everything)
            c[draw(st.sampled_from("abc"))] = {"t": "any"}
        c["values"] = _probe_values(draw, [c["a"], c["b"], c["c"]])
        # values an operand accepts through a subclass relation: bool under int, datetime under date, instances of
        # dict subclasses under dict ...
        for sp in (c["a"], c["b"], c["c"]):
            try:
                c["values"].append(draw(values.typed_zoo(sp))[0])
                c["values"].append(values.wrap_dicts(draw, draw(values.conforming(sp))))
            except values.Unsat:
                pass
    elif kind == "add":
        dd = draw(st.sampled_from([1, 1, 2]))
        c["a"], c["b"] = draw(_declared_dict(dd)), draw(_declared_dict(dd))
        if c["a"]["entries"] and draw(st.booleans()):
            # force an overlapping key with independent spec / optionality
            e = draw(st.sampled_from(c["a"]["entries"]))
            if not values._key_in(e["key"], [x["key"] for x in c["b"]["entries"]]):
                c["b"]["entries"].append({"key": e["key"], "opt": draw(st.booleans()),
                                          "spec": draw(specs.spec_strategy(depth=0, sat=True))})
        if draw(st.integers(0, 3)) == 0:
            # a key declared by both operands whose members are themselves dicts (two partial descriptions of one
            # nested object): the right one replaces the left one, it is not merged with it
            m1, m2 = draw(_declared_dict(1)), draw(_declared_dict(1))
            flags = draw(st.sampled_from([(True, True), (True, True), (True, False), (False, True), (False, False)]))
            m1["relaxed"], m2["relaxed"] = flags
            m1.pop("relaxed_at", None)
            m2.pop("relaxed_at", None)
            key = draw(st.sampled_from(["nested", "a", "user"]))
            for d, m in ((c["a"], m1), (c["b"], m2)):
                d["entries"] = [x for x in d["entries"] if not values._key_in(key, [x["key"]])]
                d["entries"].append({"key": key, "opt": draw(st.booleans()), "spec": m})
        c["values"] = _probe_values(draw, [model.merge(c["a"], c["b"]), c["a"], c["b"]])
    elif kind == "required":
        c["d"] = draw(_declared_dict(draw(st.sampled_from([1, 2]))))
        if draw(st.integers(0, 3)) == 0:
            # dotted keys (the notation rollout understands) next to a nested dict with the same head
            inner = {"t": "dict", "entries": [{"key": "b", "opt": True, "spec": {"t": "int"}},
                                              {"key": "name", "opt": draw(st.booleans()), "spec": {"t": "str"}}],
                     "relaxed": False}
            have = [e["key"] for e in c["d"]["entries"]]
            for k, sp in (("a", inner), ("a.b", {"t": "int"}), ("a.name", {"t": "str"})):
                if not values._key_in(k, have) and draw(st.integers(0, 3)) > 0:
                    c["d"]["entries"].append({"key": k, "opt": True, "spec": sp})
        keys = [e["key"] for e in c["d"]["entries"]]
        c["keys"] = None if (not keys or draw(st.booleans())) else \
            draw(st.lists(st.sampled_from(keys), max_size=len(keys), unique_by=lambda k: (type(k).__name__, k)))
        c["keys_type"] = draw(st.sampled_from(["list", "tuple", "set"]))
        c["values"] = _probe_values(draw, [c["d"]], n=4)
    elif kind == "alias":
        c["target"] = draw(sub)
        c["name"] = draw(st.sampled_from(["Alias", "T", "x y"]))
        c["values"] = _probe_values(draw, [c["target"]], n=3)
    else:
        c["d"] = draw(_declared_dict(draw(st.sampled_from([1, 2]))))
        c["values"] = []
    return c


def strategy(tier):
    return _case()


class _Undeclarable(Exception):
    pass


def _build(spec):
    from d42.declaration import DeclarationError
    try:
        return specs.build(spec)
    except DeclarationError as e:
        raise _Undeclarable(str(e))


def _flat_alts(sch):
    from d42.declaration.types import AnySchema
    from niltype import Nil
    if isinstance(sch, AnySchema) and sch.props.types is not Nil:
        out = []
        for t in sch.props.types:
            out.extend(_flat_alts(t))
        return out
    return [sch]


def check(case, ctx):
    try:
        return _check(case, ctx)
    except _Undeclarable as e:
        ctx.skip_undeclarable(None, e)


def _check(case, ctx):
    from d42 import fake, schema, substitute, validate
    from d42.substitution.errors import SubstitutionError
    from d42.utils import make_required

    kind = case["kind"]
    vals = [values.realize(v) for v in case["values"]]
    ctx.label("kind:" + kind)
    verdicts = set()

    if kind == "or":
        A, B, C = _build(case["a"]), _build(case["b"]), _build(case["c"])
        before = [canon.canon(x) for x in (A, B, C)]
        U, U2 = A | B, schema.any(A, B)
        if canon.canon(U) != canon.canon(U2):
            raise Violation("or-vs-any", f"{A!r} | {B!r} differs from schema.any(a, b)")
        left, right, flat = (A | B) | C, A | (B | C), schema.any(A, B, C)
        cl, cr, cf = canon.canon(left), canon.canon(right), canon.canon(flat)
        if not (cl == cr == cf):
            raise Violation("union-not-associative", f"(a|b)|c={left!r}  a|(b|c)={right!r}  any(a,b,c)={flat!r}")
        want = [canon.canon(x) for x in _flat_alts(A) + _flat_alts(B) + _flat_alts(C)]
        got = [canon.canon(x) for x in flat]
        if got != want:
            raise Violation("flatten-changes-members", f"iterating {flat!r} gives {got!r}, want {want!r}")
        for v in vals:
            oa, ob, oc = _ok(A, v, "a"), _ok(B, v, "b"), _ok(C, v, "c")
            if _ok(U, v, "a|b") != (oa or ob):
                raise Violation("union-verdict", f"({A!r} | {B!r}) on {v!r}: {_ok(U, v, 'u')}, parts {oa}/{ob}")
            if _ok(left, v, "(a|b)|c") != (oa or ob or oc) or _ok(right, v, "a|(b|c)") != (oa or ob or oc):
                raise Violation("union3-verdict", f"nested union on {v!r}: parts {oa}/{ob}/{oc}")
            verdicts.add(oa or ob or oc)
        # the documented way of changing what "accepts" means: a Validator subclass overriding visit_* - the law holds for it too
        from d42.validation import Validator
        from d42.validation.errors import TypeValidationError

        class Strict(Validator):
            def visit_int(self, schema_, *, value=None, path=None, **kw):
                if isinstance(value, bool):
                    p = path if path is not None else self.make_path()
                    return self.make_validation_result().add_error(TypeValidationError(p, value, int))
                return super().visit_int(schema_, value=value, **({"path": path} if path is not None else {}), **kw)

            def visit_none(self, schema_, *, value=None, path=None, **kw):
                res = super().visit_none(schema_, value=value, **({"path": path} if path is not None else {}), **kw)
                if value is None:
                    res.add_error(TypeValidationError(path if path is not None else self.make_path(), value, type(None)))
                return res          # (a validator for which nothing is none)

        def strict_ok(sch, v):
            try:
                return not sch.__accept__(Strict(), value=v).has_errors()
            except Exception:  # noqa
                return None
        for v in vals + [True, False, None, [True], {"a": None}]:
            parts = [strict_ok(x, v) for x in (A, B, C)]
            whole = [strict_ok(x, v) for x in (left, right, flat)]
            if None in parts or None in whole:
                continue
            if any(w_ != any(parts) for w_ in whole):
                raise Violation("union-verdict", f"under a Validator subclass (bool is not an int, nothing is none) the union of {A!r}, {B!r}, "
                                                 f"{C!r} says {whole!r} on {v!r}, its operands {parts!r}")
        if [canon.canon(x) for x in (A, B, C)] != before:
            raise Violation("operand-mutated", "| changed an operand")
        nontrivial = len(_flat_alts(A) + _flat_alts(B) + _flat_alts(C)) >= 3 and len(verdicts) == 2

    elif kind == "add":
        D1, D2 = _build(case["a"]), _build(case["b"])
        before = (canon.canon(D1), canon.canon(D2))
        try:
            D = D1 + D2
        except Exception as e:  # noqa
            raise Violation("add-raises", f"{D1!r} + {D2!r} raised {e!r}")
        merged = model.merge(case["a"], case["b"])
        M = _build(merged)
        if canon.canon(D) != canon.canon(M):
            raise Violation("add-structure", f"{D1!r} + {D2!r} = {D!r}, expected the merged mapping {M!r}")
        for v in vals:
            got = _ok(D, v, "d1+d2")
            if got != _ok(M, v, "merged"):
                raise Violation("add-vs-dsl", f"(d1+d2) and the DSL-declared merge disagree on {v!r}")
            want = model.conforms(merged, v)
            if want is not None and got != want:
                raise Violation("add-verdict", f"({D1!r} + {D2!r}) on {v!r}: {got}, merge semantics say {want}")
            verdicts.add(got)
        if (canon.canon(D1), canon.canon(D2)) != before:
            raise Violation("operand-mutated", "+ changed an operand")
        ka = {(type(e["key"]).__name__, e["key"]): e for e in case["a"]["entries"]}
        overlap = [e for e in case["b"]["entries"] if (type(e["key"]).__name__, e["key"]) in ka]
        if overlap:
            ctx.label("add:overlap")
        if case["a"].get("relaxed") != case["b"].get("relaxed"):
            ctx.label("add:one-relaxed")
        nontrivial = (bool(overlap) or case["a"].get("relaxed") != case["b"].get("relaxed")) and len(verdicts) == 2

    elif kind == "required":
        D = _build(case["d"])
        before = canon.canon(D)
        keys = case["keys"]
        try:
            if keys is None:
                R = make_required(D)
            else:
                R = make_required(D, {"list": list, "tuple": tuple, "set": set}[case["keys_type"]](keys))
        except Exception as e:  # noqa
            raise Violation("make-required-raises", f"make_required({D!r}, {keys!r}) raised {e!r}")
        K = [e["key"] for e in case["d"]["entries"]] if keys is None else keys
        for v in vals:
            base = _ok(D, v, "d")
            want = base and isinstance(v, dict) and all(values._key_in(k, list(v)) for k in K)
            got = _ok(R, v, "required")
            if got != want:
                raise Violation("make-required-verdict",
                                f"make_required({D!r}, {keys!r}) on {v!r}: {got}; d accepts: {base}, keys {K!r}")
            verdicts.add(got)
        if canon.canon(D) != before:
            raise Violation("operand-mutated", "make_required changed its argument")
        made = [e for e in case["d"]["entries"] if e["opt"] and values._key_in(e["key"], K)]
        if made:
            ctx.label("required:flipped-optional")
        if keys is None:
            ctx.label("required:default-keys")
        nontrivial = bool(made) and len(verdicts) == 2

    elif kind == "alias":
        T = _build(case["target"])
        A = schema.alias(case["name"], T)
        for v in vals:
            try:
                ea, et = validate(A, v).get_errors(), validate(T, v).get_errors()
            except Exception as e:  # noqa
                raise Violation("validate-raises", f"alias validate raised {e!r}")
            if ea != et:
                raise Violation("alias-errors-differ", f"alias {ea!r} vs target {et!r} on {v!r}")
            verdicts.add(not ea)
            try:
                ra = substitute(A, v)
            except SubstitutionError:
                ra = None
            except Exception as e:  # noqa
                ra = ("exc", type(e).__name__)
            try:
                rt = substitute(T, v)
            except SubstitutionError:
                rt = None
            except Exception as e:  # noqa
                rt = ("exc", type(e).__name__)
            if (ra is None) != (rt is None) or isinstance(ra, tuple) != isinstance(rt, tuple):
                raise Violation("alias-substitution-differs", f"alias % {v!r} -> {ra!r}; target % -> {rt!r}")
            if ra is not None and not isinstance(ra, tuple):
                if canon.canon(ra.props.type) != canon.canon(rt):
                    raise Violation("alias-substitution-result", f"(alias % v).type = {ra.props.type!r}, target % v = {rt!r}")
        try:
            with rng.scripted(case["rng"]):
                ga = fake(A)
            with rng.scripted(case["rng"]):
                gt = fake(T)
        except Exception:  # noqa  (generation failures are C01's business)
            ga = gt = None
            ctx.label("alias:fake-raised")
        else:
            if not _same_generated(case["target"], ga, gt):
                raise Violation("alias-generation-differs", f"fake(alias)={ga!r} fake(target)={gt!r} under one RNG script")
        nontrivial = len(verdicts) == 2

    else:  # access
        D = _build(case["d"])
        declared = case["d"]["entries"]
        for e in declared:
            try:
                member = D[e["key"]]
            except Exception as ex:  # noqa
                raise Violation("getitem-raises", f"{D!r}[{e['key']!r}] raised {ex!r}")
            if canon.canon(member) != canon.canon(_build(e["spec"])):
                raise Violation("getitem-wrong-member", f"{D!r}[{e['key']!r}] = {member!r}")
        for bad in ["no such key", ...]:
            try:
                D[bad]
            except KeyError:
                pass
            except Exception as ex:  # noqa
                raise Violation("getitem-wrong-exception", f"d[{bad!r}] raised {ex!r}")
            else:
                raise Violation("getitem-undeclared", f"{D!r}[{bad!r}] returned a value")
        want = [canon.atom(e["key"]) for e in declared]
        for name, it in (("iter", list(D)), ("keys", list(D.keys()))):
            got = [canon.atom(k) for k in it if k is not Ellipsis]
            if got != want:
                raise Violation("iteration-keys", f"{name}({D!r}) yields {it!r}, declared {want!r}")
        nontrivial = len(declared) >= 2
    ctx.label("verdicts:%d" % len(verdicts))
    if nontrivial:
        ctx.mark_nontrivial(case, sample_class=kind)


def _same_generated(spec, a, b):
    """equal, except that unfixed uuid4/datetime/date nodes draw from the OS / clock"""
    volatile = any(s["t"] in ("uuid4", "datetime", "date") and "value" not in s
                   for s, _ in specs.walk(spec))
    if volatile:
        return type(a) is type(b)
    return a == b or (a != a and b != b)


def require(ctx, tier):
    for lab in ("kind:or", "kind:add", "kind:required", "kind:alias", "kind:access", "add:overlap",
                "add:one-relaxed", "required:flipped-optional", "required:default-keys", "verdicts:2"):
        if not ctx.labels.get(lab):
            raise HarnessError(f"C13 generator never produced class {lab!r}")


# thorough tier: libFuzzer (atheris) also drives this strategy with coverage feedback from d42
COVERAGE_GUIDED = {"runs": 60000, "seconds": 120}

MANIFEST = {
    "text": "Generated-input search over combinator operands and boundary values: each combinator's "
            "verdict must equal the combination of its parts' verdicts (library-vs-library), the "
            "reference merge model and the DSL-declared equivalent; structure compared with the "
            "independent canon. Finds left-wins merges, lost relaxed markers, ignored key lists, "
            "dropped alternatives and non-delegating alias visitors on explored inputs.",
    "design_ref": "DESIGN.md section 3, C13",
    "note": "trusts d42.validate on the *parts* (C02 covers it) and pbt/model.merge for the + semantics",
    "technique": "property-based testing (Hypothesis), metamorphic (whole-vs-parts) and reference-model oracles",
}
