"""C06 - repr(schema) is DSL source that rebuilds an equal schema.

case = {"spec": SchemaSpec without alias/custom nodes (derived add / required nodes allowed)}
"""
import datetime
import math
import uuid

from hypothesis import strategies as st

from .. import canon, specs
from ..core import HarnessError, Violation

ID = "C06"
LEVEL = "exploration"
RULE = ("Hypothesis draws any declarable SchemaSpec without alias/custom nodes (13 types, value + "
        "constraint combinations in every declaration order the DSL accepts, all len forms, nested "
        "lists/dicts with str/int/None/bytes/tuple/float keys, optional and relaxed markers, "
        "any-unions, results of + and make_required, non-finite float values and bounds; depth<=4). "
        "Oracle: repr is deterministic, equals represent(), eval() of the text in the documented "
        "namespace gives a schema with identical canon, d42-equal, and identical repr. distinct = "
        "canonical JSON of the spec; non-trivial = >=2 declared props on one node or nesting>=1")
ASSUMPTIONS = ["NaN as a fixed value or bound is outside the domain (NaN != NaN makes 'equal' meaningless)",
               "eval namespace: schema, optional, UUID, datetime (module) plus Python builtins"]
BUDGET = {"quick": (1500, 4), "thorough": (25000, 16)}


@st.composite
def _nonfinite(draw):
    s = {"t": "float"}
    which = draw(st.sampled_from(["value", "min", "max"]))
    s[which] = draw(st.sampled_from([float("inf"), float("-inf")]))
    if which != "value" and draw(st.booleans()):
        s["precision"] = draw(st.integers(1, 15))
    s["order"] = [k for k in ("min", "max", "precision") if k in s]
    return s


def exhaustive(tier):
    import itertools
    for lo, hi, p in ((0.11, 0.19, 1), (3.14, 3.14, 1), (0.0, 1.0, 2), (0.15, 0.15, 1), (-0.05, 0.04, 1), (1e15, 1e15 + 2, 3),
                      (0.1, 0.30000000000000004, 1), (2.5, 2.5, 0)):
        for order in itertools.permutations(["min", "max", "precision"]):
            f = {"t": "float", "min": lo, "max": hi, "precision": p, "order": list(order)}
            yield {"spec": f}
            yield {"spec": {"t": "dict", "entries": [{"key": "r", "opt": True, "spec": f}], "relaxed": False}}
        for order in (["min", "precision"], ["precision", "min"], ["max", "precision"], ["precision", "max"]):
            f = {"t": "float", "precision": p, "order": order}
            f[order[0] if order[0] != "precision" else order[1]] = lo
            yield {"spec": f}
    for lf in (["min", 3], ["range", 1, 2], ["eq", 2], ["max", 0]):
        for order in itertools.permutations(["len", "alphabet", "substr"]):
            yield {"spec": {"t": "str", "len": lf, "alphabet": "ab", "substr": "ba", "order": list(order)}}
    nasty = [r"""\w+=['"]\w*['"]""", r"""'" "\d""", r"""[\\'"]+""", "a\nb", "\\", "'", '"', "{0}%s", "\u00e9\t", "\\d+\n", "(?x)\n \\d+  # digits\n",
             "\r\\w", "\x00\\.", "'''", '"""', "\\N{DASH}", "\\'", "a\\\nb", "\u2028\\s", "tab\there\\t"]
    for x in nasty:
        for sp in ({"t": "str", "pattern": x}, {"t": "str", "value": x}, {"t": "str", "substr": x, "order": ["substr"]},
                   {"t": "str", "alphabet": x, "order": ["alphabet"]}, {"t": "bytes", "value": x.encode("utf-8", "surrogatepass")},
                   {"t": "dict", "entries": [{"key": x, "opt": True, "spec": {"t": "str", "value": x}}], "relaxed": True}):
            yield {"spec": sp}
    for order in itertools.permutations(["min", "max"]):
        yield {"spec": {"t": "int", "min": 3, "max": 3, "order": list(order)}}
        yield {"spec": {"t": "int", "min": 5, "max": 1, "order": list(order)}}


@st.composite
def _case(draw):
    depth = draw(st.integers(0, 4))
    spec = draw(specs.spec_strategy(depth=depth, sat=draw(st.booleans()), alias=False,
                                    derived=draw(st.booleans())))
    if draw(st.integers(0, 9)) == 0:
        # alphabet / contains / len that contradict each other, declared in a drawn order
        st_ = {"t": "str", "alphabet": draw(st.sampled_from(["abn", "a", "", "xyz"])),
               "substr": draw(st.sampled_from(["banana!", "b", "", "zz"]))}
        if draw(st.booleans()):
            st_["len"] = draw(specs.len_free())
        st_["order"] = list(draw(st.permutations([k for k in ("len", "alphabet", "substr") if k in st_])))
        spec = draw(st.sampled_from([st_, {"t": "list", "form": "typed", "elem": st_},
                                     {"t": "dict", "entries": [{"key": "s", "opt": False, "spec": st_}],
                                      "relaxed": False}]))
    if draw(st.integers(0, 11)) == 0:
        # patterns / values mixing backslashes with both kinds of quotes, braces, newlines, non-ASCII
        nasty = draw(st.sampled_from([r"""\w+=['"]\w*['"]""", r"""'" "\d""", r"""[\\'"]+""", "a\nb", "\\", "'", '"',
                                      "{0}%s", "\u00e9\t", r"""(?P<q>['"])x"""]))
        st_ = {"t": "str", "pattern": nasty} if draw(st.booleans()) else \
            draw(st.sampled_from([{"t": "str", "value": nasty}, {"t": "str", "substr": nasty, "order": ["substr"]},
                                  {"t": "str", "alphabet": nasty, "order": ["alphabet"]}]))
        spec = draw(st.sampled_from([st_, {"t": "dict", "entries": [{"key": nasty, "opt": True, "spec": st_}],
                                           "relaxed": False}]))
    if draw(st.integers(0, 15)) == 0:
        nf = draw(_nonfinite())
        spec = draw(st.sampled_from([nf, {"t": "list", "form": "exact", "elems": [nf, spec]},
                                     {"t": "dict", "entries": [{"key": "k", "opt": True, "spec": nf}],
                                      "relaxed": False}]))
    return {"spec": spec}


def strategy(tier):
    return _case()


def _props_count(s):
    return sum(1 for k in ("value", "min", "max", "precision", "len", "alphabet", "substr", "pattern",
                           "elem", "elems") if k in s)


def check(case, ctx):
    import d42
    from d42.declaration import DeclarationError
    spec = case["spec"]
    for s, _ in specs.walk(spec):
        if s["t"] in ("alias", "custom", "or", "subst"):
            if s["t"] == "or":
                continue
            ctx.label("skip:alias-or-custom-node")      # outside C06's domain
            return
    try:
        S = specs.build(spec)
    except DeclarationError as e:
        ctx.skip_undeclarable(None, e)
        return
    ns = {"schema": d42.schema, "optional": d42.optional, "UUID": uuid.UUID, "datetime": datetime}
    # other public operations first: what the schema prints (and equals) must not depend on its past
    try:
        d42.validate(S, None)
        d42.fake(S)
    except Exception:  # noqa  (not this check's business)
        pass
    try:
        t = repr(S)
        t2 = repr(S)
        t3 = d42.represent(S)
    except Exception as e:  # noqa
        raise Violation("repr-raises", f"repr of spec {spec!r} raised {e!r}")
    if not isinstance(t, str) or t != t2 or t != t3:
        raise Violation("repr-nondeterministic", f"{t!r} / {t2!r} / {t3!r}")
    try:
        S2 = eval(t, dict(ns))
    except Exception as e:  # noqa
        raise Violation(f"repr-not-evaluable:{type(e).__name__}", f"eval({t!r}) raised {e!r}")
    c1, c2 = canon.canon(S), canon.canon(S2)
    if c1 != c2:
        raise Violation("roundtrip-differs", f"eval(repr(S)) differs structurally: repr={t!r}\n"
                                             f"original canon={c1!r}\nrebuilt  canon={c2!r}")
    if not (S2 == S) or not (S == S2) or (S2 != S):
        raise Violation("roundtrip-not-equal", f"eval(repr(S)) == S is False for {t!r}")
    if repr(S2) != t:
        raise Violation("roundtrip-repr-differs", f"{t!r} vs {repr(S2)!r}")
    # a representor of one's own: another facade name and indent width, same round trip
    try:
        from d42.representation import Representor
        t_own = S.__accept__(Representor(name="sch", indent=2))
        S3 = eval(t_own, {"sch": d42.schema, "optional": d42.optional, "UUID": uuid.UUID, "datetime": datetime})
    except Exception as e:  # noqa
        raise Violation("own-representor", f"Representor(name='sch', indent=2) on {t!r}: {e!r}")
    if canon.canon(S3) != c1:
        raise Violation("own-representor-roundtrip", f"{t_own!r} rebuilds a different schema than {t!r}")
    # the same live object at two nesting depths (and printed on its own first): text must not depend on
    # what was printed before, and the nested form must round-trip as well
    try:
        W = d42.schema.dict({"outer": S, "inner": d42.schema.list([S, d42.schema.dict({"deep": S})])})
        tw = repr(W)
        W2 = eval(tw, dict(ns))
    except Exception as e:  # noqa
        raise Violation("shared-node-repr", f"schema reused at two depths: {e!r} (first repr: {t!r})")
    if canon.canon(W2) != canon.canon(W) or repr(W2) != tw or repr(S) != t:
        raise Violation("shared-node-roundtrip", f"a schema reused at two depths does not round-trip: {tw!r} "
                                                 f"vs rebuilt {repr(W2)!r}")
    for lab in specs.node_labels(spec):
        ctx.label(lab)
    nonfinite = any(isinstance(s.get(k), float) and math.isinf(s[k])
                    for s, _ in specs.walk(spec) for k in ("value", "min", "max"))
    if nonfinite:
        ctx.label("non-finite-float")
    if "\n" in t:
        ctx.label("multi-line")
    if specs.depth_of(spec) >= 1 or any(_props_count(s) >= 2 for s, _ in specs.walk(spec)):
        ctx.mark_nontrivial(case, sample_class=(spec["t"], specs.depth_of(spec)))


def require(ctx, tier):
    for lab in ("t:add", "t:required", "dict:optional", "dict:relaxed", "list:contains", "list-len:range",
                "str:pattern", "float:precision", "non-finite-float", "multi-line", "t:uuid4", "t:datetime"):
        if not ctx.labels.get(lab):
            raise HarnessError(f"C06 generator never produced class {lab!r}")


# thorough tier: libFuzzer (atheris) also drives this strategy with coverage feedback from d42
COVERAGE_GUIDED = {"runs": 60000, "seconds": 120}

MANIFEST = {
    "text": "Round-trip search: repr -> eval -> compare (independent canon, d42 ==, repr again) over "
            "generated schemas covering every prop combination the generator can declare; finds any "
            "prop, marker or nesting level lost or altered in the printed form on the explored "
            "shapes; no absence claim.",
    "design_ref": "DESIGN.md section 3, C06",
    "note": "trusts Python eval/repr of plain values and canon(); NaN excluded",
    "technique": "property-based testing (Hypothesis), round-trip oracle",
}
