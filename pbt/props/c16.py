"""C16 - custom schema types behave like built-ins in every position.

case = {"spec": SchemaSpec in which a drawn subset of nodes is wrapped as {"t": "custom", "spec": node},
        "values": [recipes], "rng": [selectors]}
T  = build(spec, wrap_custom=False)   (plain built-ins)
T' = build(spec, wrap_custom=True)    (wrapped nodes are forwarding CustomSchema instances)
"""
import collections

from hypothesis import strategies as st

from .. import canon, rng, specs, values
from ..core import HarnessError, Violation

ID = "C16"
LEVEL = "exploration"
RULE = ("Hypothesis draws a SchemaSpec tree (depth<=3) and wraps a drawn subset of its nodes (root, list element, "
        "typed-list type, dict value, any alternative, alias target, nested) in a forwarding CustomSchema whose four hooks "
        "delegate to the wrapped built-in - the plain forwarding class, a class derived from it with its own hooks (the "
        "base class is always exercised first), or, in a quarter of the cases, a class whose hooks have exact keyword-only "
        "signatures without **kwargs; values are conforming, near-miss, perturbed and zoo-injected. Oracle: identical "
        "repr, also through Representors of one's own with indent steps 2, 8, 4 used one after the other on the same objects; identical error multisets (kind, path, parameters), also through a Validator with its own path-holder "
        "class; under one RNG script identical generated value that validates; substitution succeeds with identical repr "
        "or fails with the identical SubstitutionError message; a marker keyword given to validate / fake / represent / "
        "substitute reaches every hook call, represent visits every wrapped node exactly once. distinct = canonical JSON "
        "of the case; non-trivial = a wrapped node at depth>=1")
ASSUMPTIONS = ["the forwarding custom type is the one in pbt/specs.py (hooks delegate with all keyword arguments)"]
BUDGET = {"quick": (1000, 4), "thorough": (15000, 16)}


def _wrap(draw, s, depth=0, pos="root"):
    s = dict(s)
    t = s["t"]
    if t == "list":
        if "elem" in s:
            s["elem"] = _wrap(draw, s["elem"], depth + 1, "typed-list")
        if "elems" in s:
            s["elems"] = [_wrap(draw, e, depth + 1, "list-element") for e in s["elems"]]
    elif t == "dict" and "entries" in s:
        s["entries"] = [dict(e, spec=_wrap(draw, e["spec"], depth + 1, "dict-value")) for e in s["entries"]]
    elif t == "any" and "alts" in s:
        s["alts"] = [_wrap(draw, a, depth + 1, "any-alternative") for a in s["alts"]]
    elif t == "alias":
        s["spec"] = _wrap(draw, s["spec"], depth + 1, "alias-target")
    # An any-union that is itself an alternative of a union is flattened at declaration time only
    # when it is a real AnySchema; a custom type cannot take part in that normalisation, so such
    # a node is never wrapped (the property speaks of positions, not of declaration-time rewriting).
    if pos == "any-alternative" and _resolves_to_any(s):
        return s
    if draw(st.integers(0, 2)) == 0:
        out = {"t": "custom", "spec": s, "pos": pos, "depth": depth}
        kind = draw(st.integers(0, 3))
        if kind == 0:
            out["sub"] = True       # a custom type that subclasses another (already used) custom type
        elif kind == 1:
            out["own"] = True       # checks the value's kind itself (an error of its own at the path it was handed)
        return out
    return s


def _resolves_to_any(s):
    while s["t"] == "custom":
        s = s["spec"]
    return s["t"] == "any"


def _make_strict(s):
    s = dict(s)
    if s["t"] == "custom":
        s.pop("sub", None)
        s.pop("own", None)
        s["strict"] = True
    for k in ("elem", "spec"):
        if k in s and isinstance(s[k], dict) and "t" in s[k]:
            s[k] = _make_strict(s[k])
    if "elems" in s:
        s["elems"] = [_make_strict(e) for e in s["elems"]]
    if "alts" in s:
        s["alts"] = [_make_strict(e) for e in s["alts"]]
    if "entries" in s:
        s["entries"] = [dict(e, spec=_make_strict(e["spec"])) for e in s["entries"]]
    return s


def _ellipsis_in_lists(v):
    """v with a `...` in the middle (and at the end) of every list of two or more members"""
    if isinstance(v, list):
        w = [_ellipsis_in_lists(x) for x in v]
        return w[:1] + [...] + w[1:] + [...] if len(w) >= 2 else w + [...]
    if isinstance(v, dict):
        return {k: _ellipsis_in_lists(x) for k, x in v.items()}
    return v


@st.composite
def _case(draw):
    base = draw(specs.spec_strategy(depth=draw(st.sampled_from([1, 1, 2, 2, 3])), sat=True))
    spec = _wrap(draw, base)
    if draw(st.integers(0, 3)) == 0:
        # custom types whose hooks have exact signatures (keyword-only, no **kwargs): no extra keywords are
        # passed to the visitors in such a case
        spec = _make_strict(spec)
    vals = []
    try:
        vals.append(draw(values.conforming(base)))
        vals.append(draw(values.near(base))[0])
        vals.append(draw(values.near_multi(base, 3))[0])
        vals.append(draw(values.perturb(vals[0]))[0])
        vals.append(draw(values.inject(vals[0]))[0])
        # what substitution is about: a partial value, and a value holding `...` placeholders (also in the middle of lists)
        from .. import substgen
        vals.append(substgen.project(draw, vals[0], p=draw(st.sampled_from([1, 2]))))
        vals.append(substgen.put_ellipsis(draw, vals[0]))
        vals.append(_ellipsis_in_lists(vals[0]))
    except values.Unsat:
        pass
    vals.append(draw(values.junk))
    return {"spec": spec, "values": vals, "rng": draw(rng.script_strategy(30)),
            "strict": any(s_.get("strict") for s_, _ in specs.walk(spec) if s_["t"] == "custom")}


def strategy(tier):
    return _case()


def _sig(e):
    from d42.declaration import Schema
    d = dict(e.__dict__)
    path = "".join(str(o) for o in d.pop("path"))
    out = []
    for k, v in sorted(d.items()):
        if isinstance(v, Schema):
            v = ("schema", repr(v))
        elif isinstance(v, tuple) and v and all(isinstance(x, Schema) for x in v):
            v = ("schemas", tuple(repr(x) for x in v))
        elif k == "actual_value":
            v = ("id", id(v)) if isinstance(v, (list, dict)) else ("v", repr(v))
        else:
            v = ("v", repr(v))
        out.append((k, v))
    return (type(e).__name__, path, tuple(out))


_REGISTERED = {}


def check(case, ctx):
    import d42
    from d42 import fake, represent, substitute, validate
    from d42.declaration import DeclarationError, register_type
    from d42.substitution.errors import SubstitutionError
    spec = case["spec"]
    Fwd = specs.forwarding_class()
    try:
        T = specs.build(spec, wrap_custom=False)
        T2 = specs.build(spec, wrap_custom=True)
    except DeclarationError as e:
        ctx.skip_undeclarable(None, e)
        return
    wrapped = [(s.get("pos"), s.get("depth", 0)) for s, _ in specs.walk(spec) if s["t"] == "custom"]
    MK = {} if case.get("strict") else {"marker": 7}      # extra keyword passed through the visitors
    if case.get("strict"):
        ctx.label("strict-signature-hooks")
    if "done" not in _REGISTERED:
        # the base custom type is in use before any type derived from it (the realistic order)
        warm = Fwd()(d42.schema.int)
        repr(warm), validate(warm, 1), fake(warm), substitute(warm, 1)
        got = register_type("pbt_forwarding", Fwd)
        if not isinstance(got, Fwd) or not isinstance(d42.schema.pbt_forwarding, Fwd):
            raise Violation("register-type", f"register_type returned {got!r}")
        _REGISTERED["done"] = True

    # printed form
    Fwd.log = []
    try:
        r2 = represent(T2, **MK)
    except Exception as e:  # noqa
        raise Violation("represent-raises", f"represent of the wrapped tree raised {e!r}")
    finally:
        log, Fwd.log = Fwd.log, None
    r1 = repr(T)
    if r1 != r2 or repr(T2) != r1:
        raise Violation("repr-differs", f"built-in: {r1!r}\nwrapped : {r2!r}")
    if MK and any(kw.get("marker") != 7 for h, kw in log):
        raise Violation("kwargs-lost:represent", f"a represent hook did not receive the marker keyword: {log!r}")
    if MK and len([1 for h, _ in log if h == "represent"]) != len(wrapped):
        raise Violation("represent-visits", f"{len(wrapped)} wrapped nodes, {len(log)} represent hook calls")

    # printers of one's own, configured differently, used one after the other on the same schema objects
    from d42.representation import Representor
    for step in (2, 8, 4):
        try:
            o2 = T2.__accept__(Representor(indent=step))
            o1 = T.__accept__(Representor(indent=step))
        except Exception as e:  # noqa
            raise Violation("represent-raises", f"Representor(indent={step}) raised {e!r}")
        if o1 != o2:
            raise Violation("repr-differs", f"Representor(indent={step}) after repr()\nbuilt-in: {o1!r}\nwrapped : {o2!r}")

    # validation
    verdicts = set()
    for rec in case["values"]:
        v = values.realize(rec)
        Fwd.log = []
        try:
            e2 = validate(T2, v, **MK).get_errors()
            e1 = validate(T, v).get_errors()
        except Exception as e:  # noqa
            Fwd.log = None
            try:
                validate(T, v)
            except Exception:  # noqa  (built-in raises as well: C08's business)
                ctx.label("validate-raised-on-both")
                continue
            raise Violation("validate-raises-only-wrapped", f"validate(wrapped {r1}, {v!r}) raised {e!r}")
        log, Fwd.log = Fwd.log, None
        if collections.Counter(map(_sig, e1)) != collections.Counter(map(_sig, e2)):
            raise Violation("errors-differ", f"value {v!r}\nbuilt-in: {e1!r}\nwrapped : {e2!r}")
        for h, kw in log:
            if MK and kw.get("marker") != 7:
                raise Violation("kwargs-lost:validate", f"a validate hook did not receive the marker keyword: {kw!r}")
            if type(kw.get("path")).__name__ != "PathHolder":
                raise Violation("path-not-passed", f"validate hook got path={kw.get('path')!r}")
        verdicts.add(not e1)
        # substitution
        outcome = []
        for tree, kw in ((T, {}), (T2, dict(MK))):
            Fwd.log = []
            try:
                outcome.append(("ok", repr(substitute(tree, v, **kw))))
            except SubstitutionError as e:
                outcome.append(("refused", str(e)))
            except Exception as e:  # noqa
                outcome.append(("exc", type(e).__name__))
            log, Fwd.log = Fwd.log, None
            if any(k.get("marker") != 7 for h, k in log if h == "substitute") and kw:
                raise Violation("kwargs-lost:substitute", f"a substitute hook did not receive the marker: {log!r}")
        if outcome[0] != outcome[1]:
            raise Violation("substitution-differs", f"value {v!r}\nbuilt-in: {outcome[0]!r}\nwrapped : {outcome[1]!r}")
        ctx.label("subst:" + outcome[0][0])

    # a validator of one's own with its own path-holder class: errors of both trees carry that class
    from d42.validation import Validator
    from th import PathHolder

    class SlashPath(PathHolder):
        pass
    own = Validator(path_holder_factory=SlashPath)
    for rec in case["values"][:3]:
        v = values.realize(rec)
        try:
            o1 = T.__accept__(own, value=v).get_errors()
            o2 = T2.__accept__(own, value=v).get_errors()
        except Exception:  # noqa
            continue
        k1 = collections.Counter((_sig(e), type(e.path).__name__) for e in o1)
        k2 = collections.Counter((_sig(e), type(e.path).__name__) for e in o2)
        if k1 != k2:
            raise Violation("own-validator-errors-differ", f"Validator(path_holder_factory=...) on {v!r}\n"
                                                           f"built-in: {[(e, type(e.path).__name__) for e in o1]!r}\n"
                                                           f"wrapped : {[(e, type(e.path).__name__) for e in o2]!r}")

    # a root path of one's own, passed through validate(): both trees report below it
    for rec in case["values"][:3]:
        v = values.realize(rec)
        try:
            n1 = validate(T, v, path=PathHolder("body")).get_errors()
            n2 = validate(T2, v, path=PathHolder("body"), **MK).get_errors()
        except Exception:  # noqa
            continue
        r1_, r2_ = sorted(repr(e.path) for e in n1), sorted(repr(e.path) for e in n2)
        if r1_ != r2_:
            raise Violation("named-root-path-differs", f"validate(..., {v!r}, path=PathHolder('body'))\nbuilt-in: {r1_!r}\nwrapped : {r2_!r}")

    # generation under one RNG script
    volatile = any(s["t"] in ("uuid4", "datetime", "date") and "value" not in s for s, _ in specs.walk(spec))
    try:
        with rng.scripted(case["rng"]):
            g1 = fake(T)
    except Exception:  # noqa  (C01's business)
        g1 = None
        ctx.label("fake-raised-on-built-in")
    else:
        Fwd.log = []
        try:
            with rng.scripted(case["rng"]):
                g2 = fake(T2, **MK)
        except Exception as e:  # noqa
            raise Violation("fake-raises-only-wrapped", f"fake(wrapped {r1}) raised {e!r}")
        finally:
            log, Fwd.log = Fwd.log, None
        if MK and any(kw.get("marker") != 7 for h, kw in log):
            raise Violation("kwargs-lost:generate", f"a generate hook did not receive the marker: {log!r}")
        if not volatile and not (g1 == g2 or (g1 != g1 and g2 != g2)):
            raise Violation("generation-differs", f"one RNG script: built-in {g1!r}, wrapped {g2!r}")
        if validate(T, g2).has_errors() != validate(T, g1).has_errors():
            raise Violation("generated-invalid", f"fake(wrapped) = {g2!r} does not validate like fake(built-in)")
    for pos, d in wrapped:
        ctx.label("wrapped@" + str(pos))
    if any(s_.get("sub") for s_, _ in specs.walk(spec) if s_["t"] == "custom"):
        ctx.label("subclassed-custom-type")
    ctx.label("verdicts:%d" % len(verdicts))
    if any(d >= 1 for _, d in wrapped):
        ctx.mark_nontrivial(case, sample_class=tuple(sorted({p for p, _ in wrapped}))[:2])


def require(ctx, tier):
    for lab in ("wrapped@root", "wrapped@list-element", "wrapped@typed-list", "wrapped@dict-value",
                "wrapped@any-alternative", "wrapped@alias-target", "subst:ok", "subst:refused", "verdicts:2"):
        if not ctx.labels.get(lab):
            raise HarnessError(f"C16 generator never produced class {lab!r}")


MANIFEST = {
    "text": "Differential search: the same schema tree is built with and without forwarding custom "
            "types at drawn positions; printed form, validation errors (kind/path/parameters), "
            "generated value under one RNG script and substitution outcome must coincide, and keyword "
            "arguments must reach every hook. Finds containers that drop **kwargs/indent/path for "
            "members and visitors dispatching to the wrong hook, on explored trees.",
    "design_ref": "DESIGN.md section 3, C16",
    "note": "differential against the built-in tree (same code for the non-wrapped parts); the forwarding class is ours",
    "technique": "property-based testing (Hypothesis), differential oracle (wrapped vs built-in tree)",
}
