"""C11 - constraint refinements can be declared in any order.

case = {"type": "int|float|str|list", "base": None | ["value", v] | ["elems", n] | ["typed"],
        "refs": [[method, arg-recipe...], ...]}   (a *set* of distinct refinements)
All permutations of refs are applied to the same base; outcomes must agree:
all DeclarationError, or all succeed with pairwise identical canon (and d42 ==).
The base universe is enumerated exhaustively; Hypothesis adds parameters outside it.
"""
import itertools

from hypothesis import strategies as st

from .. import canon
from ..core import Violation

ID = "C11"
LEVEL = "exploration"
RULE = ("exhaustive enumeration of every set of <=3 distinct non-value refinements per type (int "
        "{min,max}; float {min,max,precision}; str {len form, alphabet, contains, regex}; list "
        "{len form}) x parameters from a boundary universe x {no fixed value, a fixed value "
        "first}, all permutations applied inside one case; Hypothesis then draws parameters "
        "outside the universe. distinct = canonical JSON of (type, base, refinement set); "
        "non-trivial = sets of >=2 refinements")
ASSUMPTIONS = ["canon() (walk over public props) is the trusted structural equality; d42 == is "
               "asserted in addition"]
BUDGET = {"quick": (400, 2), "thorough": (8000, 16)}
EXHAUSTIVE_COMPLETE = True

E = ...
LEN_FORMS = [[0], [2], [3], [0, E], [2, E], [3, E], [E, 0], [E, 2], [E, 5], [0, 2], [1, 1], [2, 5],
             [3, 1], [-1, E], [-1, 2], [E, -1], [-1], [E, E], [2.0], [True], [2.0, E], [E, 2.0], [0, 2.0]]
INT = {"min": [[-1], [0], [2], [0.0], [False]], "max": [[-1], [0], [2], [2.0], [True]]}
# 0.54 / 0.46 / 1.2 / 1.3 lie on the wrong side of the base values 0.5 / 1.25 but coincide with them
# once rounded at precision 1 (a refinement that compares "as the validator would" goes wrong there)
BIG = 1.7976931348623157e308        # (scaling it by 10**precision overflows)
FLOAT = {"min": [[-1.0], [0.5], [2.0], [0.54], [1.3], [BIG], [-BIG]], "max": [[-1.0], [0.5], [2.0], [0.46], [1.2], [BIG], [-BIG]],
         "precision": [[1], [3]]}
STR = {"len": LEN_FORMS, "alphabet": [["ab"], ["a"], [""]], "contains": [["a"], ["ab"], ["ba"], ["aa"], ["c"], [""]],
       "regex": [["a"], ["^ab$"], ["c+"], [""]]}
LIST = {"len": LEN_FORMS}
BASES = {
    "int": [None, ["value", 0], ["value", 1]],
    "float": [None, ["value", 0.5], ["value", 1.25], ["value", BIG]],
    "str": [None, ["value", "ab"], ["value", ""], ["value", "aab"]],
    "list": [None, ["typed"], ["elems", 0], ["elems", 2], ["head", 1], ["ellipsis"]],
}
UNIVERSE = {"int": INT, "float": FLOAT, "str": STR, "list": LIST}


def exhaustive(tier):
    # two length forms in one set (lower-bound-only with upper-bound-only, exact with a range, ...):
    # every order must be rejected alike, whichever form comes first
    for typ in ("str", "list"):
        for base in BASES[typ]:
            for f1, f2 in itertools.combinations(LEN_FORMS, 2):
                yield {"type": typ, "base": base, "refs": [["len"] + f1, ["len"] + f2]}
    for typ, uni in UNIVERSE.items():
        kinds = sorted(uni)
        for base in BASES[typ]:
            for k in range(1, min(3, len(kinds)) + 1):
                for combo in itertools.combinations(kinds, k):
                    for params in itertools.product(*[uni[m] for m in combo]):
                        yield {"type": typ, "base": base,
                               "refs": [[m] + list(p) for m, p in zip(combo, params)]}


def strategy(tier):
    small = st.integers(-3, 40)
    lens = st.one_of(
        small.map(lambda n: [n]), small.map(lambda n: [n, E]), small.map(lambda n: [E, n]),
        st.tuples(small, small).map(list))
    txt = st.text(alphabet="abc01 .é", max_size=4)
    pats = st.sampled_from(["a", "ab", "^a", "b$", "[ab]+", "a{2}", "\\d", ".*", "(", "c|a"])
    flo = st.floats(-5, 5, allow_nan=False).map(lambda x: round(x, 2))
    per_type = {
        "int": {"min": st.integers(-5, 5).map(lambda n: [n]), "max": st.integers(-5, 5).map(lambda n: [n])},
        "float": {"min": flo.map(lambda x: [x]), "max": flo.map(lambda x: [x]),
                  "precision": st.integers(0, 17).map(lambda n: [n])},
        "str": {"len": lens, "alphabet": txt.map(lambda s: [s]), "contains": txt.map(lambda s: [s]),
                "regex": pats.map(lambda s: [s])},
        "list": {"len": lens},
    }
    bases = {
        "int": st.one_of(st.none(), st.integers(-5, 5).map(lambda v: ["value", v])),
        "float": st.one_of(st.none(), flo.map(lambda v: ["value", v])),
        "str": st.one_of(st.none(), txt.map(lambda v: ["value", v])),
        "list": st.sampled_from(BASES["list"]),
    }

    @st.composite
    def case(draw):
        typ = draw(st.sampled_from(["int", "float", "str", "str", "str", "list"]))
        kinds = sorted(per_type[typ])
        chosen = draw(st.lists(st.sampled_from(kinds), min_size=1, max_size=min(3, len(kinds)),
                               unique=True))
        refs = [[m] + draw(per_type[typ][m]) for m in chosen]
        return {"type": typ, "base": draw(bases[typ]), "refs": refs}
    return case()


def _base(case):
    from d42 import schema
    s = getattr(schema, case["type"])
    b = case["base"]
    if b is None:
        return s
    if b[0] == "value":
        return s(b[1])
    if b[0] == "typed":
        return s(schema.int)
    if b[0] == "elems":
        return s([schema.int(i) for i in range(b[1])])
    if b[0] == "head":
        return s([schema.int(i) for i in range(b[1])] + [...])
    if b[0] == "ellipsis":
        return s([...])
    raise ValueError(b)


def _apply(s, ref):
    name, args = ref[0], ref[1:]
    return getattr(s, name)(*args)


def check(case, ctx):
    from d42.declaration import DeclarationError
    try:
        base = _base(case)
    except DeclarationError:
        ctx.label("base-undeclarable")
        return
    outcomes = []
    refs = case["refs"]
    for perm in itertools.permutations(range(len(refs))):
        s = base
        try:
            for i in perm:
                s = _apply(s, refs[i])
        except DeclarationError:
            outcomes.append((perm, "error", None))
            continue
        except Exception as e:  # noqa
            raise Violation("non-declaration-error",
                            f"order {[refs[i] for i in perm]!r} on {base!r} raised {e!r}")
        outcomes.append((perm, "ok", s))
    kinds = {o[1] for o in outcomes}
    if len(kinds) > 1:
        ok = next(o for o in outcomes if o[1] == "ok")
        bad = next(o for o in outcomes if o[1] == "error")
        raise Violation("order-dependent-outcome",
                        f"base {base!r}: order {[refs[i] for i in ok[0]]!r} succeeds but order "
                        f"{[refs[i] for i in bad[0]]!r} raises DeclarationError")
    if kinds == {"ok"}:
        c0 = canon.canon(outcomes[0][2])
        for perm, _, s in outcomes[1:]:
            if canon.canon(s) != c0:
                raise Violation("order-dependent-result",
                                f"base {base!r}: {outcomes[0][2]!r} vs {s!r} for another order")
            if not (s == outcomes[0][2]) or (s != outcomes[0][2]):
                raise Violation("order-dependent-eq", f"{s!r} == {outcomes[0][2]!r} is False")
    ctx.label("type:" + case["type"], "size:%d" % len(refs),
              "all-succeed" if kinds == {"ok"} else "all-fail",
              "with-base" if case["base"] else "no-base")
    if len(refs) >= 2:
        ctx.mark_nontrivial(case, sample_class=(case["type"], len(refs), kinds == {"ok"}))


MANIFEST = {
    "text": "The finite base universe (every set of <=3 distinct refinements x boundary parameters "
            "x optional fixed value, all permutations) is enumerated completely; beyond it "
            "Hypothesis samples further parameters. Within the universe the claim is exhaustive.",
    "design_ref": "DESIGN.md section 3, C11",
    "note": "universe of parameters is small and fixed (pbt/props/c11.py); equality via independent canon()",
    "technique": "exhaustive enumeration of a finite universe + property-based testing (Hypothesis), permutation-invariance oracle",
}
