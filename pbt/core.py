"""Core types shared by the runner and the property modules."""
import collections

from . import codec

__all__ = ("Violation", "HarnessError", "Ctx")


class Violation(Exception):
    """The property is broken on this case.  ``key`` names the clause / root-cause class."""

    def __init__(self, key, detail=""):
        super().__init__(f"{key}: {detail}")
        self.key = key
        self.detail = str(detail)[:2000]


class HarnessError(Exception):
    """The machinery itself is wrong (generator outside domain, vacuity guard...).  Exit 2."""


class Ctx:
    """Per-worker statistics.  Merged across shards by the runner."""

    MAX_SAMPLES = 12
    MAX_DISTINCT = 400_000

    def __init__(self, tier="quick", shard=0):
        self.tier = tier
        self.shard = shard
        self.evaluations = 0
        self.labels = collections.Counter()
        self.nontrivial = set()
        self.samples = []
        self.excluded = collections.Counter()
        self.counting = True
        self.undeclarable = 0
        self._seen_sample_classes = set()

    # -- called by checks ---------------------------------------------------------------
    def label(self, *names):
        if self.counting:
            for n in names:
                self.labels[n] += 1

    def skip_undeclarable(self, spec, err):
        """The DSL refused a generated spec.  Counted, not fatal: declaration rules are not what most
        checks are about (a gate in the runner turns a high ratio into a harness error)."""
        self.undeclarable += 1
        if self.counting:
            self.labels["skip:undeclarable-spec"] += 1

    def mark_nontrivial(self, case, sample_class=None):
        """Record a case as non-trivial (counted once per distinct canonical encoding)."""
        if not self.counting:
            return
        if len(self.nontrivial) < self.MAX_DISTINCT:
            self.nontrivial.add(codec.digest(case))
        cls = sample_class
        if len(self.samples) < self.MAX_SAMPLES and (cls is None or cls not in self._seen_sample_classes):
            if cls is not None:
                self._seen_sample_classes.add(cls)
            try:
                self.samples.append(codec.enc(case))
            except TypeError:
                self.samples.append(repr(case)[:500])

    # -- merge --------------------------------------------------------------------------
    def export(self):
        return {
            "evaluations": self.evaluations,
            "labels": dict(self.labels),
            "nontrivial": self.nontrivial,
            "samples": self.samples,
            "excluded": dict(self.excluded),
        }
