"""Matching with CPython's re in a forked child that can be killed.

A match inside the C engine does not return to the interpreter, so SIGALRM cannot interrupt it; a lazy
quantifier inside counted repeats in front of ``$`` makes even a *successful* match enumerate an
astronomic number of partitions.  Patterns with a quantifier inside a quantifier are therefore matched
in a child process: verdict True / False, or None when the child had to be killed (inconclusive).
"""
import os
import re
import select
import signal
import time


def run(fn, secs=5.0):
    """fn() -> truthy/falsy evaluated in a forked child; None on timeout or crash of the child."""
    r, w = os.pipe()
    pid = os.fork()
    if pid == 0:
        code = 2
        try:
            os.close(r)
            signal.alarm(0)
            os.write(w, b"1" if fn() else b"0")
            code = 0
        except BaseException:  # noqa
            try:
                os.write(w, b"E")
            except OSError:
                pass
        finally:
            os._exit(code)
    os.close(w)
    verdict = None
    try:
        deadline = time.monotonic() + secs
        while True:
            left = deadline - time.monotonic()
            if left <= 0:
                break
            try:
                ready, _, _ = select.select([r], [], [], left)
            except InterruptedError:
                continue
            if ready:
                b = os.read(r, 1)
                verdict = {b"1": True, b"0": False}.get(b)
                break
    finally:
        os.close(r)
        try:
            os.kill(pid, signal.SIGKILL)
        except ProcessLookupError:
            pass
        try:
            os.waitpid(pid, 0)
        except ChildProcessError:
            pass
    return verdict


def fullmatch(p, s, secs=5.0):
    return run(lambda: re.fullmatch(p, s) is not None, secs)


def search(p, s, secs=5.0):
    return run(lambda: re.search(p, s) is not None, secs)
