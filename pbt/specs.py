"""SchemaSpec recipes: strategies, and the builder that turns a spec into a live d42 schema
**through the public DSL only**.

A spec is a plain dict; field values are plain Python data (ints, floats, str, bytes, UUID,
datetime, date) so that pbt.codec can serialise it.

  {"t": "none"}
  {"t": "bool", "value"?}
  {"t": "int", "value"?, "min"?, "max"?, "order"?: [refinement names]}
  {"t": "float", "value"?, "min"?, "max"?, "precision"?, "order"?}
  {"t": "str", "value"?, "len"?: LEN, "alphabet"?, "substr"?, "pattern"?, "order"?}
  {"t": "bytes"|"uuid4"|"datetime"|"date", "value"?}
  {"t": "list", "form": "untyped"|"typed"|"exact"|"head"|"tail"|"contains"|"ellipsis",
        "elem"?: spec, "elems"?: [spec], "len"?: LEN}
  {"t": "dict", "entries"?: [{"key": k, "opt": bool, "spec": spec}], "relaxed"?: bool}
        (no "entries" key = undeclared schema.dict)
  {"t": "any", "alts"?: [spec]}          (no "alts" = undeclared schema.any)
  {"t": "alias", "name": str, "spec": spec}
  {"t": "custom", "spec": spec}                   forwarding CustomSchema (C16)
  derived: {"t": "or", "a", "b"}  {"t": "add", "a", "b"}  {"t": "required", "d", "keys": [..]|None}
           {"t": "subst", "s": spec, "v": value}
  LEN := ["eq", n] | ["min", a] | ["max", b] | ["range", a, b]
"""
import datetime as _dt
import uuid

from hypothesis import strategies as st

from . import regexgen

INT63 = 2 ** 63

# ----------------------------------------------------------------------------------------------
# scalar universes
small_ints = st.integers(-6, 6)
ints = st.one_of(
    small_ints, small_ints, st.integers(-1000, 1000),
    st.sampled_from([INT63 - 1, INT63, -INT63, -INT63 - 1, 2 ** 64, -2 ** 64, 2 ** 70, -2 ** 70,
                     2 ** 31, 10 ** 30]),
    st.integers(-2 ** 70, 2 ** 70),
    # beyond the range of a double (float(n) raises OverflowError)
    st.sampled_from([2 ** 1024, -2 ** 1030, 10 ** 400]),
)
nice_floats = st.one_of(
    st.integers(-500, 500).map(lambda k: k / 100),
    st.integers(-50, 50).map(lambda k: k / 10),
    st.sampled_from([0.0, -0.0, 1.0, -1.0, 0.5, 0.15, 0.95, 1e-7, 3.14, 2.675, 1e15, -1e15]),
)
finite_floats = st.one_of(
    nice_floats, nice_floats,
    st.floats(-1e6, 1e6, allow_nan=False, allow_infinity=False),
    st.floats(allow_nan=False, allow_infinity=False, width=64),
    st.sampled_from([1e30, -1e30, 1e300, 9.3e18, -9.3e18, float(2 ** 63), 5e-324, 1e-17, -3e-200, 2.5e-16]),
    # subnormal numbers with an odd mantissa (x / 2 * 2 != x), the largest finite numbers
    st.sampled_from([5e-324, 1.5e-323, 2.5e-323, -5e-324, -1.5e-323, 3.5e-323, 1.7976931348623157e308,
                     -1.7976931348623157e308, 1e308, 2.2250738585072014e-308]),
)
TEXT_ALPHABET = "abcxyz AB019-_.é߀"
texts = st.text(alphabet=TEXT_ALPHABET, max_size=6)
long_texts = st.one_of(texts, texts, st.text(alphabet="ab", min_size=30, max_size=45))
bytes_ = st.binary(max_size=5)
uuid4s = st.integers(0, 2 ** 128 - 1).map(lambda i: uuid.UUID(int=i, version=4))
datetimes = st.one_of(
    st.datetimes(min_value=_dt.datetime(1990, 1, 1), max_value=_dt.datetime(2100, 1, 1)),
    st.datetimes(min_value=_dt.datetime(1990, 1, 1), max_value=_dt.datetime(2100, 1, 1),
                 timezones=st.sampled_from([_dt.timezone.utc,
                                            _dt.timezone(_dt.timedelta(hours=3))])),
    st.sampled_from([_dt.datetime.min, _dt.datetime.max]),
)
plain_dates = st.one_of(st.dates(), st.sampled_from([_dt.date.min, _dt.date.max, _dt.date(2000, 2, 29)]))
# a datetime is a date (subclass) and schema.date takes it as its fixed value
dates = st.integers(0, 7).flatmap(lambda i: st.sampled_from([_dt.datetime(2021, 3, 4, 5, 6, 7), _dt.datetime(2000, 1, 1),
                                                              _dt.datetime(1999, 12, 31, 23, 59, 59, 999999)])
                                  if i == 0 else plain_dates)
dict_keys = st.one_of(
    st.sampled_from(["a", "b", "c", "id", "k k", "", "é"]),
    st.sampled_from(["a", "b", "c", "d", "e"]),
    st.sampled_from([2, 3, -7, None, b"k", ("t", 2), "...", 2.5, "{x}", "a{", "a.b", "a.name", "%s", "first  name", " ", "a\tb", "x\ny"]),
)

SCALAR_TYPES = ["none", "bool", "int", "float", "str", "bytes", "uuid4", "datetime", "date"]


def _perm(draw, names):
    names = list(names)
    if len(names) < 2:
        return names
    return list(draw(st.permutations(names)))


# ----------------------------------------------------------------------------------------------
def len_ok(lenform, n):
    """Does length n satisfy LEN?"""
    if lenform is None:
        return True
    k = lenform[0]
    if k == "eq":
        return n == lenform[1]
    if k == "min":
        return n >= lenform[1]
    if k == "max":
        return n <= lenform[1]
    return lenform[1] <= n <= lenform[2]


@st.composite
def len_around(draw, n, big=False, huge=True):
    """A LEN form admitting length n (n may be None: any non-negative form)."""
    kind = draw(st.sampled_from(["eq", "min", "max", "range"]))
    if n is None:
        hi = 45 if big else 6
        a = draw(st.integers(0, hi))
        if big and huge and draw(st.integers(0, 7)) == 0:
            a = draw(st.sampled_from([256, 257, 300]))      # beyond CPython's cache of small int objects
        if kind == "eq":
            return ["eq", a]
        if kind == "min":
            return ["min", a]
        if kind == "max":
            return ["max", a]
        return ["range", a, a + draw(st.integers(0, 6))]
    if kind == "eq":
        return ["eq", n]
    if kind == "min":
        return ["min", draw(st.integers(max(0, n - 3), n))]
    if kind == "max":
        return ["max", n + draw(st.integers(0, 3))]
    return ["range", draw(st.integers(max(0, n - 3), n)), n + draw(st.integers(0, 3))]


@st.composite
def len_free(draw):
    """Any declarable LEN form, including negative and contradictory bounds."""
    kind = draw(st.sampled_from(["eq", "min", "max", "range"]))
    a = draw(st.integers(-2, 8))
    if kind == "range":
        return ["range", a, draw(st.integers(-2, 8))]
    return [kind, a]


# ----------------------------------------------------------------------------------------------
@st.composite
def int_spec(draw, sat=True):
    mode = draw(st.sampled_from(["plain", "value", "value+", "bounds", "bounds"]))
    s = {"t": "int"}
    if mode == "plain":
        return s
    if mode in ("value", "value+"):
        v = draw(ints)
        s["value"] = v
        if mode == "value+":
            if draw(st.booleans()):
                s["min"] = v - draw(st.integers(0, 3))
            if draw(st.booleans()):
                s["max"] = v + draw(st.integers(0, 3))
    else:
        lo = draw(ints)
        which = draw(st.sampled_from(["min", "max", "both"]))
        if which in ("min", "both"):
            s["min"] = lo
        if which == "max":
            s["max"] = lo
        if which == "both":
            if sat:
                s["max"] = lo + draw(st.one_of(st.integers(0, 3), st.integers(0, 10 ** 6)))
            else:
                s["max"] = draw(ints)
    s["order"] = _perm(draw, [k for k in ("min", "max") if k in s])
    return s


@st.composite
def float_spec(draw, sat=True):
    mode = draw(st.sampled_from(["plain", "value", "value+", "bounds", "bounds", "precision"]))
    s = {"t": "float"}
    if mode == "plain":
        return s
    if mode in ("value", "value+"):
        v = draw(finite_floats)
        s["value"] = v
        if mode == "value+":
            if draw(st.booleans()):
                s["min"] = v - abs(draw(nice_floats))
            if draw(st.booleans()):
                s["max"] = v + abs(draw(nice_floats))
            if draw(st.booleans()):
                s["precision"] = draw(st.integers(1, 15))
                # a bound between the value and the value rounded at that precision (same rounding bucket)
                rv = round(v, s["precision"])
                if rv != v and abs(v) < 1e15 and draw(st.booleans()):
                    mid = (rv + v) / 2
                    if rv < v and mid <= v:
                        s["min"] = mid
                    elif rv > v and mid >= v:
                        s["max"] = mid
    else:
        p = None
        if mode == "precision" or draw(st.booleans()):
            p = draw(st.one_of(st.integers(1, 4), st.integers(1, 15)))
            s["precision"] = p
        if sat and p is not None:
            # a grid point g = k / 10**p must lie inside [min, max]
            k = draw(st.integers(-10 ** min(p + 2, 9), 10 ** min(p + 2, 9)))
            g = k / 10 ** p
            which = draw(st.sampled_from(["none", "min", "max", "both", "both"]))
            if which in ("min", "both"):
                s["min"] = g - draw(st.sampled_from([0.0, 0.5 / 10 ** p, 0.05, 1.0, 0.3 / 10 ** p]))
            if which in ("max", "both"):
                s["max"] = g + draw(st.sampled_from([0.0, 0.5 / 10 ** p, 0.05, 1.0, 0.3 / 10 ** p]))
            if "min" in s and s["min"] > g:
                s["min"] = g
            if "max" in s and s["max"] < g:
                s["max"] = g
            s["_grid_witness"] = g
        else:
            lo = draw(finite_floats)
            if draw(st.integers(0, 9)) == 0:
                # bounds among the subnormal numbers (no halving, doubling or mid-point is exact there)
                lo = draw(st.integers(-9, 9)) * 5e-324
            which = draw(st.sampled_from(["min", "max", "both"])) if p is None else \
                draw(st.sampled_from(["none", "min", "max", "both"]))
            if which in ("min", "both"):
                s["min"] = lo
            if which == "max":
                s["max"] = lo
            if which == "both":
                if sat:
                    hi = lo + abs(draw(st.one_of(nice_floats, finite_floats)))
                    if abs(lo) < 1e-300 and draw(st.booleans()):
                        hi = lo + draw(st.integers(0, 5)) * 5e-324
                    if hi != hi or hi in (float("inf"), float("-inf")) or hi < lo or draw(st.integers(0, 5)) == 0:
                        hi = lo         # a single admissible number
                    s["max"] = hi
                else:
                    s["max"] = draw(finite_floats)
    s["order"] = _perm(draw, [k for k in ("min", "max", "precision") if k in s])
    return s


@st.composite
def str_spec(draw, sat=True, patterns=True):
    modes = ["plain", "value", "value+", "cons", "cons", "cons"] + (["pattern"] if patterns else [])
    mode = draw(st.sampled_from(modes))
    s = {"t": "str"}
    if mode == "plain":
        return s
    if mode == "pattern":
        pat = draw(regexgen.cheap_pattern_strategy(2))
        s["pattern"] = regexgen.render(pat)
        return s
    if mode in ("value", "value+"):
        v = draw(long_texts)
        s["value"] = v
        if mode == "value+":
            if draw(st.booleans()):
                s["len"] = draw(len_around(len(v)))
            if draw(st.booleans()):
                extra = draw(st.text(alphabet=TEXT_ALPHABET, max_size=3))
                letters = list(dict.fromkeys(v + extra))
                s["alphabet"] = "".join(draw(st.permutations(letters))) if letters else ""
            if draw(st.booleans()):
                i = draw(st.integers(0, len(v)))
                j = draw(st.integers(i, len(v)))
                s["substr"] = v[i:j]
        s["order"] = _perm(draw, [k for k in ("len", "alphabet", "substr") if k in s])
        return s
    # constraints without a fixed value
    has_alpha = draw(st.booleans())
    has_sub = draw(st.booleans())
    has_len = draw(st.booleans()) or not (has_alpha or has_sub)
    alpha = None
    if has_alpha:
        alpha = draw(st.one_of(st.text(alphabet=TEXT_ALPHABET, min_size=1, max_size=5),
                               st.sampled_from(["a", "ab", "01", " ", "é", "aab"])))
        if draw(st.integers(0, 30)) == 0:
            alpha = ""          # admits only "" (labelled: empty-alphabet)
        s["alphabet"] = alpha
    sub = None
    if has_sub:
        if sat and alpha is not None:
            sub = "".join(draw(st.lists(st.sampled_from(alpha), max_size=4))) if alpha else ""
        else:
            sub = draw(st.one_of(texts, st.text(alphabet="ab", min_size=33, max_size=40)))
        s["substr"] = sub
    if has_len:
        if sat:
            base = len(sub) if sub is not None else 0
            if alpha == "":
                lf = draw(st.sampled_from([["eq", 0], ["max", 0], ["max", 3], ["min", 0],
                                           ["range", 0, 2]]))
            else:
                n = base + draw(st.one_of(st.integers(0, 4), st.sampled_from([30, 32, 33, 40, 80, 257, 300])))
                lf = draw(len_around(n))
                if draw(st.integers(0, 11)) == 0:
                    lf = ["eq", draw(st.sampled_from([257, 300]))]
            s["len"] = lf
        else:
            s["len"] = draw(len_free())
    s["order"] = _perm(draw, [k for k in ("len", "alphabet", "substr") if k in s])
    return s


def _valued(tname, values):
    return st.one_of(st.just({"t": tname}), values.map(lambda v: {"t": tname, "value": v}))


def scalar_spec(sat=True, patterns=True):
    return st.one_of(
        st.just({"t": "none"}),
        _valued("bool", st.booleans()),
        int_spec(sat), int_spec(sat),
        float_spec(sat), float_spec(sat),
        str_spec(sat, patterns), str_spec(sat, patterns),
        _valued("bytes", bytes_),
        _valued("uuid4", uuid4s),
        _valued("datetime", datetimes),
        _valued("date", dates),
    )


@st.composite
def list_spec(draw, depth, sat, opts):
    form = draw(st.sampled_from(["untyped", "typed", "typed", "exact", "exact", "head", "tail",
                                 "contains", "ellipsis"]))
    s = {"t": "list", "form": form}
    sub = spec_strategy(depth - 1, sat, **opts)
    # an exact length beyond CPython's cache of small int objects (lists of scalars only: cost)
    long_eq = depth <= 1 and draw(st.integers(0, 9)) == 0
    if form == "untyped":
        if long_eq:
            s["len"] = ["eq", draw(st.sampled_from([257, 300]))]
        elif draw(st.booleans()):
            s["len"] = draw(len_around(None, big=True, huge=depth <= 1)) if sat else draw(len_free())
        return s
    if form == "typed":
        s["elem"] = draw(sub)
        if long_eq:
            s["len"] = ["eq", draw(st.sampled_from([257, 300]))]
        elif draw(st.booleans()):
            s["len"] = draw(len_around(None, big=draw(st.integers(0, 5)) == 0, huge=depth <= 1)) if sat \
                else draw(len_free())
        return s
    if form == "ellipsis":
        s["elems"] = []
        k = 0
    else:
        lo = 0 if form == "exact" else 1
        s["elems"] = draw(st.lists(sub, min_size=lo, max_size=3))
        k = len(s["elems"])
    if draw(st.booleans()):
        # declaration rules: len(n): n == k (exact) / n >= k (ellipsis forms); min_len <= k; max_len >= k
        kind = draw(st.sampled_from(["eq", "min", "max", "range"]))
        extra = 0 if form == "exact" else draw(st.integers(0, 3))
        if kind == "eq":
            s["len"] = ["eq", k + extra]
        elif kind == "min":
            s["len"] = ["min", draw(st.integers(0, k))]
        elif kind == "max":
            s["len"] = ["max", k + draw(st.integers(0, 3))]
        else:
            s["len"] = ["range", draw(st.integers(0, k)), k + draw(st.integers(0, 3))]
    return s


@st.composite
def dict_spec(draw, depth, sat, opts):
    if draw(st.integers(0, 7)) == 0:
        return {"t": "dict"}
    sub = spec_strategy(depth - 1, sat, **opts)
    keys = draw(st.lists(dict_keys, min_size=0, max_size=4, unique_by=lambda k: (type(k).__name__, k)))
    entries = [{"key": k, "opt": draw(st.booleans()), "spec": draw(sub)} for k in keys]
    out = {"t": "dict", "entries": entries, "relaxed": draw(st.integers(0, 3)) == 0}
    if out["relaxed"] and entries and draw(st.booleans()):
        out["relaxed_at"] = draw(st.integers(0, len(entries) - 1))     # `...: ...` not declared last
    return out


@st.composite
def any_spec(draw, depth, sat, opts):
    if draw(st.integers(0, 7)) == 0:
        return {"t": "any"}
    sub = spec_strategy(depth - 1, sat, **opts)
    if draw(st.integers(0, 6)) == 0:
        # an enumeration: every alternative is a constant
        const = st.one_of(st.just({"t": "none"}), small_ints.map(lambda v: {"t": "int", "value": v}),
                          st.integers(199, 203).map(lambda v: {"t": "int", "value": v}),
                          texts.map(lambda v: {"t": "str", "value": v}))
        return {"t": "any", "alts": draw(st.lists(const, min_size=2, max_size=5))}
    alts = draw(st.lists(sub, min_size=1, max_size=3))
    if not sat and draw(st.integers(0, 2)) == 0:
        # (only where satisfiability is not promised: a variant of a satisfiable alternative need not be one)
        # look-alike alternatives: an alternative next to a single-step variant of itself (one element
        # replaced by `...` or by an accept-all schema, one flag toggled, one bound moved ...)
        from .props.c15 import _variant
        twin = _variant(draw, alts[0])
        if twin is not None and not opts.get("alias") and any(n["t"] == "alias" for n, _ in walk(twin)):
            twin = None
        if twin is not None:
            alts.insert(draw(st.integers(0, len(alts))), twin)
    return {"t": "any", "alts": alts}


def spec_strategy(depth=3, sat=True, alias=True, patterns=True, custom=False, derived=False):
    """Strategy for SchemaSpec.  sat=True: hereditarily satisfiable by construction."""
    opts = dict(alias=alias, patterns=patterns, custom=custom, derived=derived)
    scal = scalar_spec(sat, patterns).map(lambda x: x)   # map() keeps one_of from flattening
    if depth <= 0:
        return scal
    branches = [list_spec(depth, sat, opts), list_spec(depth, sat, opts),
                dict_spec(depth, sat, opts), dict_spec(depth, sat, opts),
                any_spec(depth, sat, opts)]
    if alias:
        def _alias(n, s, chain):
            out = {"t": "alias", "name": n, "spec": s}
            return {"t": "alias", "name": n + "_outer", "spec": out} if chain == 0 else out     # alias of an alias
        branches.append(st.builds(_alias, st.sampled_from(["Alias", "T", "user_id"]),
                                  st.deferred(lambda: spec_strategy(depth - 1, sat, **opts)), st.integers(0, 2)))
    if derived:
        sub = st.deferred(lambda: spec_strategy(depth - 1, sat, **opts))
        dsub = st.deferred(lambda: dict_spec(depth, sat, opts))
        branches.append(st.builds(lambda a, b: {"t": "or", "a": a, "b": b}, sub, sub))
        branches.append(st.builds(lambda a, b: {"t": "add", "a": a, "b": b}, dsub, dsub))
        branches.append(dsub.flatmap(_required_of))
    cont = st.one_of(*branches)
    # containers first and three times: Hypothesis' generation is biased towards small examples
    # (flatmap instead of one_of: one_of would flatten the nested alternatives into one pool)
    return st.integers(0, 3).flatmap(lambda i: scal if i == 0 else cont)


def _required_of(d):
    keys = [e["key"] for e in d.get("entries", [])]
    if not keys:
        return st.just({"t": "required", "d": d, "keys": None})
    return st.one_of(
        st.just({"t": "required", "d": d, "keys": None}),
        st.lists(st.sampled_from(keys), unique_by=lambda k: (type(k).__name__, k), max_size=len(keys)
                 ).map(lambda ks: {"t": "required", "d": d, "keys": ks}),
    )


# ----------------------------------------------------------------------------------------------
# builder
def _apply_len(s, lf):
    k = lf[0]
    if k == "eq":
        return s.len(lf[1])
    if k == "min":
        return s.len(lf[1], ...)
    if k == "max":
        return s.len(..., lf[1])
    return s.len(lf[1], lf[2])


_CUSTOM = {}


def forwarding_class():
    """A CustomSchema whose four hooks forward to the wrapped built-in schema (C16)."""
    if "cls" in _CUSTOM:
        return _CUSTOM["cls"]
    from d42.custom_type import CustomSchema, Props

    class FwdProps(Props):
        @property
        def inner(self):
            return self.get("inner")

    class Fwd(CustomSchema[FwdProps]):
        log = None

        def __call__(self, inner):
            return self.__class__(self.props.update(inner=inner))

        def _rec(self, hook, kw):
            if Fwd.log is not None:
                Fwd.log.append((hook, dict(kw)))

        def __represent__(self, visitor, *, indent=0, **kwargs):
            self._rec("represent", {"indent": indent, **kwargs})
            return self.props.inner.__accept__(visitor, indent=indent, **kwargs)

        def __generate__(self, visitor, **kwargs):
            self._rec("generate", kwargs)
            return self.props.inner.__accept__(visitor, **kwargs)

        def __validate__(self, visitor, *, value, path, **kwargs):
            self._rec("validate", {"path": path, **kwargs})
            return self.props.inner.__accept__(visitor, value=value, path=path, **kwargs)

        def __substitute__(self, visitor, *, value, **kwargs):
            self._rec("substitute", kwargs)
            return self.__class__(self.props.update(
                inner=self.props.inner.__accept__(visitor, value=value, **kwargs)))

    class Fwd2(Fwd):
        """A custom type derived from another custom type, with its own hooks: the real target lives
        under 'inner2', while 'inner' (what the parent's hooks would forward to) holds a decoy."""

        def __call__(self, inner):
            from d42 import schema
            return self.__class__(self.props.update(inner2=inner, inner=schema.bytes(b"decoy")))

        def __represent__(self, visitor, *, indent=0, **kwargs):
            self._rec("represent", {"indent": indent, **kwargs})
            return self.props.get("inner2").__accept__(visitor, indent=indent, **kwargs)

        def __generate__(self, visitor, **kwargs):
            self._rec("generate", kwargs)
            return self.props.get("inner2").__accept__(visitor, **kwargs)

        def __validate__(self, visitor, *, value, path, **kwargs):
            self._rec("validate", {"path": path, **kwargs})
            return self.props.get("inner2").__accept__(visitor, value=value, path=path, **kwargs)

        def __substitute__(self, visitor, *, value, **kwargs):
            self._rec("substitute", kwargs)
            return self.__class__(self.props.update(
                inner2=self.props.get("inner2").__accept__(visitor, value=value, **kwargs)))

    class FwdStrict(CustomSchema[FwdProps]):
        """Hooks written with exact signatures: keyword-only parameters and no **kwargs catch-all."""

        def __call__(self, inner):
            return self.__class__(self.props.update(inner=inner))

        def __represent__(self, visitor, *, indent=0):
            return self.props.inner.__accept__(visitor, indent=indent)

        def __generate__(self, visitor):
            return self.props.inner.__accept__(visitor)

        def __validate__(self, visitor, *, value, path):
            return self.props.inner.__accept__(visitor, value=value, path=path)

        def __substitute__(self, visitor, *, value):
            return self.__class__(self.props.update(inner=self.props.inner.__accept__(visitor, value=value)))

    class FwdOwn(Fwd):
        """Checks the kind of the value itself - an error of its own, reported at the path it was handed - and
        forwards everything else."""
        _NATIVE = {"IntSchema": int, "StrSchema": str, "ListSchema": list, "DictSchema": dict, "FloatSchema": float,
                   "BytesSchema": bytes}

        def __validate__(self, visitor, *, value, path, **kwargs):
            self._rec("validate", {"path": path, **kwargs})
            from d42.validation.errors import TypeValidationError
            expected = self._NATIVE.get(type(self.props.inner).__name__)
            if expected is not None and not isinstance(value, expected):
                return visitor.make_validation_result().add_error(TypeValidationError(path, value, expected))
            return self.props.inner.__accept__(visitor, value=value, path=path, **kwargs)

    _CUSTOM["own"] = FwdOwn
    _CUSTOM["cls"] = Fwd
    _CUSTOM["sub"] = Fwd2
    _CUSTOM["strict"] = FwdStrict
    return Fwd


def forwarding_subclass():
    forwarding_class()
    return _CUSTOM["sub"]


def build(spec, wrap_custom=True, share=None):
    """spec -> live d42 schema, through the public DSL.  Exceptions propagate.
    share: a dict used as a memo - equal sub-specs are then built once and the *same* schema object
    is used at every position where that sub-spec occurs (schemas are values: sharing must not matter)."""
    if share is not None:
        from . import codec
        key = codec.dumps(spec)
        if key not in share:
            share[key] = _build(spec, wrap_custom, share)
        return share[key]
    return _build(spec, wrap_custom, None)


def _build(spec, wrap_custom, share):
    from d42 import optional, schema
    t = spec["t"]
    if t == "none":
        return schema.none
    if t in ("bool", "bytes", "uuid4", "datetime", "date"):
        s = getattr(schema, t)
        return s(spec["value"]) if "value" in spec else s
    if t in ("int", "float"):
        s = getattr(schema, t)
        if "value" in spec:
            s = s(spec["value"])
        for r in spec.get("order") or [k for k in ("min", "max", "precision") if k in spec]:
            s = getattr(s, r)(spec[r])
        return s
    if t == "str":
        s = schema.str
        if "value" in spec:
            s = s(spec["value"])
        if "pattern" in spec and "pattern" not in (spec.get("order") or []):
            s = s.regex(spec["pattern"])
        for r in spec.get("order") or [k for k in ("len", "alphabet", "substr") if k in spec]:
            if r == "pattern":
                s = s.regex(spec["pattern"])        # (declared after the other constraints)
            elif r == "len":
                s = _apply_len(s, spec["len"])
            elif r == "alphabet":
                s = s.alphabet(spec["alphabet"])
            elif r == "substr":
                s = s.contains(spec["substr"])
        return s
    if t == "list":
        form = spec["form"]
        s = schema.list
        if form == "typed":
            s = s(build(spec["elem"], wrap_custom, share))
        elif form != "untyped":
            el = [build(e, wrap_custom, share) for e in spec["elems"]]
            if form == "head":
                el = el + [...]
            elif form == "tail":
                el = [...] + el
            elif form == "contains":
                el = [...] + el + [...]
            elif form == "ellipsis":
                el = [...]
            s = s(el)
        if spec.get("len"):
            s = _apply_len(s, spec["len"])
        return s
    if t == "dict":
        if "entries" not in spec:
            return schema.dict
        d = {}
        at = spec.get("relaxed_at") if spec.get("relaxed") else None
        for i, e in enumerate(spec["entries"]):
            if at == i:
                d[...] = ...
            k = optional(e["key"]) if e["opt"] else e["key"]
            d[k] = build(e["spec"], wrap_custom, share)
        if spec.get("relaxed") and ... not in d:
            d[...] = ...
        return schema.dict(d)
    if t == "any":
        if "alts" not in spec:
            return schema.any
        return schema.any(*[build(a, wrap_custom, share) for a in spec["alts"]])
    if t == "alias":
        return schema.alias(spec["name"], build(spec["spec"], wrap_custom, share))
    if t == "custom":
        inner = build(spec["spec"], wrap_custom, share)
        if not wrap_custom:
            return inner
        forwarding_class()
        cls = _CUSTOM["strict"] if spec.get("strict") else _CUSTOM["sub"] if spec.get("sub") else \
            _CUSTOM["own"] if spec.get("own") else _CUSTOM["cls"]
        return cls()(inner)
    if t == "or":
        return build(spec["a"], wrap_custom, share) | build(spec["b"], wrap_custom, share)
    if t == "add":
        return build(spec["a"], wrap_custom, share) + build(spec["b"], wrap_custom, share)
    if t == "required":
        from d42.utils import make_required
        d = build(spec["d"], wrap_custom, share)
        if spec["keys"] is None:
            return make_required(d)
        # (the keys argument may be any collection: a list for an odd number of keys, a set for an even one)
        return make_required(d, list(spec["keys"]) if len(spec["keys"]) % 2 else set(spec["keys"]))
    if t == "subst":
        from d42 import substitute
        return substitute(build(spec["s"], wrap_custom, share), spec["v"])
    raise ValueError(f"unknown spec node {t!r}")


def with_repeats(draw, spec):
    """copy one member spec onto a sibling position here and there, so that equal sub-specs occur
    (and, with build(share=...), one live object stands at several positions)"""
    s = dict(spec)
    t = s["t"]
    if t == "list" and len(s.get("elems", [])) >= 2:
        el = [with_repeats(draw, e) for e in s["elems"]]
        if draw(st.booleans()):
            i, j = draw(st.integers(0, len(el) - 1)), draw(st.integers(0, len(el) - 1))
            el[j] = el[i]
        s["elems"] = el
    elif t == "list" and "elem" in s:
        s["elem"] = with_repeats(draw, s["elem"])
    elif t == "dict" and len(s.get("entries", [])) >= 2:
        en = [dict(e, spec=with_repeats(draw, e["spec"])) for e in s["entries"]]
        if draw(st.booleans()):
            i, j = draw(st.integers(0, len(en) - 1)), draw(st.integers(0, len(en) - 1))
            en[j] = dict(en[j], spec=en[i]["spec"])
        s["entries"] = en
    elif t == "any" and len(s.get("alts", [])) >= 2:
        s["alts"] = [with_repeats(draw, a) for a in s["alts"]]
    elif t in ("alias", "custom"):
        s["spec"] = with_repeats(draw, s["spec"])
    return s


# ----------------------------------------------------------------------------------------------
def walk(spec):
    """Yield every node of a spec tree (pre-order) with its depth."""
    stack = [(spec, 0)]
    while stack:
        s, d = stack.pop()
        yield s, d
        t = s["t"]
        if t == "list":
            if "elem" in s:
                stack.append((s["elem"], d + 1))
            for e in s.get("elems", []):
                stack.append((e, d + 1))
        elif t == "dict":
            for e in s.get("entries", []):
                stack.append((e["spec"], d + 1))
        elif t == "any":
            for a in s.get("alts", []):
                stack.append((a, d + 1))
        elif t in ("alias", "custom"):
            stack.append((s["spec"], d + 1))
        elif t in ("or", "add"):
            stack.append((s["a"], d + 1))
            stack.append((s["b"], d + 1))
        elif t == "required":
            stack.append((s["d"], d + 1))
        elif t == "subst":
            stack.append((s["s"], d + 1))


def depth_of(spec):
    return max(d for _, d in walk(spec))


def node_labels(spec):
    """Coarse feature labels of a spec, for evidence histograms."""
    out = set()
    for s, d in walk(spec):
        t = s["t"]
        out.add("t:" + t)
        if t == "list":
            out.add("list:" + s["form"])
            if s.get("len"):
                out.add("list-len:" + s["len"][0])
                if s["form"] in ("head", "tail", "contains", "ellipsis"):
                    out.add("ellipsis-list+len")
        if t == "str":
            for k in ("value", "alphabet", "substr", "pattern", "len"):
                if k in s:
                    out.add("str:" + k)
            if "substr" in s and "len" in s:
                out.add("str:substr+len")
            if s.get("alphabet") == "":
                out.add("empty-alphabet")
        if t in ("int", "float"):
            for k in ("value", "min", "max", "precision"):
                if k in s:
                    out.add(f"{t}:{k}")
            if t == "int" and any(abs(s.get(k, 0)) >= INT63 for k in ("min", "max")):
                out.add("bound-beyond-default")
        if t == "dict":
            if s.get("relaxed"):
                out.add("dict:relaxed")
                if "relaxed_at" in s:
                    out.add("dict:relaxed-not-last")
            if any(e["opt"] for e in s.get("entries", [])):
                out.add("dict:optional")
            if "entries" not in s:
                out.add("dict:undeclared")
        if t == "any" and "alts" not in s:
            out.add("any:undeclared")
        if d >= 2:
            out.add("depth>=2")
    return out
