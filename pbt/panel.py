"""A fixed panel of generations under a fixed seed: its outcome must not depend on what the process did before
(C07: no operation leaves state behind; C17: fake() is a function of the seed and the schemas only).

No negated character classes (open finding C17 negated-class-hash-order) and nothing that draws from the OS clock.
"""


def schemas():
    from d42 import optional, schema
    return [
        schema.str.regex(r"[a-z]*-\d+x{2,}(?:ab|c)+?"),
        schema.str.regex(r"Ref:[A-Za-z]{3,8}/[a-f]+"),
        schema.list(schema.list(schema.list(schema.list(schema.list(schema.int.min(0).max(9))).len(1, 2)).len(1, 2)).len(1, 2)).len(1, 2),
        schema.dict({"a": schema.list(schema.str.alphabet("ab")), optional("b"): schema.float.precision(2),
                     "c": schema.dict({"d": schema.list(schema.any(schema.int, schema.none))}), ...: ...}),
        schema.any(schema.int, schema.str.alphabet("xyz").len(1, 40), schema.none, schema.list(schema.bool)),
        schema.str.len(1, 50),
        schema.list([schema.int, ...]),
        schema.bytes,
        schema.str.regex(r"(?:\w{1,3}\.)*\w+"),
        schema.list(schema.str.regex(r"\d*")).len(1, 6),
        schema.float.min(-1.5).max(2.5),
    ]


def run(seed=20240607, rounds=1):
    from d42 import fake
    from d42.generation import Random
    Random().set_seed(seed)
    out = []
    for _ in range(rounds):
        for s in schemas():
            out.append(fake(s))
    return repr(out)


def run_ops():
    """a fixed panel of conversions / substitutions / validations of equal-valued scalars of different types, in a fixed
    order: whatever a process converted, substituted or validated before must not show in the outcome"""
    from d42 import schema, substitute, validate
    from d42.utils import from_native, make_required
    from . import canon
    out = []
    scalars = (0, 1, 2, 7, 300, 0.0, 1.0, 2.0, 7.0, 300.0, -0.0, True, False, "a", "", "1", None, b"")
    for x in scalars:
        out.append(canon.canon(from_native(x)))
    for x in scalars:
        for target, wrap in ((schema.any, lambda v: v), (schema.list, lambda v: [v]), (schema.dict, lambda v: {"k": v}),
                             (schema.list([schema.int, ...]), lambda v: [5, v])):
            out.append(canon.canon(substitute(target, wrap(x))))
    d = schema.dict({"a": schema.int, "b": schema.any(schema.float, schema.none)})
    for v in ({"a": 1, "b": 1.0}, {"a": 1.0, "b": 1}, {"a": True, "b": None}, {"a": 0, "b": 0.0}, {"a": 0}):
        out.append([type(e).__name__ for e in validate(d, v).get_errors()])
    out.append(canon.canon(make_required(schema.dict({"x": schema.int}) + schema.dict({"y": schema.str}))))
    out.append(repr(schema.list(schema.dict({"k": schema.float(1.0).precision(1)}))))
    return repr(out)


# generations that fail inside containers (an exception travelling through the generator must not leave anything behind)
def failing(kind, depth):
    from d42 import fake, schema
    bad = [lambda: schema.str.regex(r"a\sb"), lambda: schema.str.regex(r"(a)\1"), lambda: schema.str.alphabet("").len(2),
           lambda: schema.any(schema.str.regex(r"(?=a)a")), lambda: schema.str.regex(r"(?i)ref:\s+"),
           lambda: schema.str.regex(r"x(?s:.\s)y"), lambda: schema.str.regex(r"(?i:ab(?=c))c")][kind % 7]()
    s = bad
    for i in range(depth):
        s = [lambda x: schema.list(x).len(1, 2), lambda x: schema.dict({"k": x}), lambda x: schema.any(x),
             lambda x: schema.list([x, ...])][(kind + i) % 4](s)
    return fake(s)
