"""Pristine evaluator: executes ONE public d42 operation in a process that has no history.

Server protocol (JSON lines on stdin/stdout).  The server imports d42 and then never executes a
d42 operation itself: every request is evaluated in a forked child that exits afterwards, so hidden
global state (memo tables, caches on visitor singletons, ...) cannot carry over from one request
to the next.  C07 compares the outcome of an operation inside a long history with the outcome of the
same operation on equal inputs here.

request : {"op": str, "schemas": [SchemaSpec...], "value": recipe|null, "extra": any}   (codec-encoded)
response: {"fp": [...]} | {"error": str}
"""
import json
import os
import sys


def fingerprint(fn):
    from d42.declaration import Schema
    from . import canon
    try:
        out = fn()
    except Exception as e:  # noqa
        return ["raised", type(e).__name__]
    if isinstance(out, Schema):
        return ["schema", repr(canon.canon(out))]
    return ["value", repr(out)]


def evaluate(op, schemas, value, extra):
    from d42 import represent, substitute, validate
    from d42.utils import from_native, make_required
    if op == "from-native":
        return fingerprint(lambda: from_native(value))
    if op == "substitute":
        return fingerprint(lambda: substitute(schemas[0], value))
    if op == "validate":
        return fingerprint(lambda: [(type(e).__name__, "".join(str(o) for o in e.path))
                                    for e in validate(schemas[0], value).get_errors()])
    if op == "add":
        return fingerprint(lambda: schemas[0] + schemas[1])
    if op == "or":
        return fingerprint(lambda: schemas[0] | schemas[1])
    if op == "represent":
        return fingerprint(lambda: represent(schemas[0]))
    if op == "make-required":
        return fingerprint(lambda: make_required(schemas[0]))
    if op == "invert":
        from d42.generation import Random

        def gen():
            Random().set_seed(extra)
            return ~schemas[0]
        return fingerprint(gen)
    if op == "panel":
        from . import panel
        return fingerprint(lambda: panel.run() + panel.run_ops())
    if op == "eq":
        return fingerprint(lambda: (schemas[0] == schemas[1], schemas[0] != schemas[1]))
    raise ValueError(op)


def serve():
    import d42  # noqa: F401
    import d42.custom_type  # noqa: F401
    from . import codec, specs, values  # noqa: F401
    sys.stdout.write(json.dumps({"ready": True}) + "\n")
    sys.stdout.flush()
    for line in sys.stdin:
        line = line.strip()
        if not line:
            continue
        r, w = os.pipe()
        pid = os.fork()
        if pid == 0:
            os.close(r)
            try:
                req = codec.dec(json.loads(line))
                schemas = [specs.build(s) for s in req["schemas"]]
                value = values.realize(req["value"]) if req.get("has_value") else None
                resp = {"fp": evaluate(req["op"], schemas, value, req.get("extra"))}
            except Exception as e:  # noqa
                resp = {"error": repr(e)}
            os.write(w, (json.dumps(resp) + "\n").encode())
            os._exit(0)
        os.close(w)
        chunks = []
        while True:
            b = os.read(r, 65536)
            if not b:
                break
            chunks.append(b)
        os.close(r)
        os.waitpid(pid, 0)
        sys.stdout.write(b"".join(chunks).decode() or json.dumps({"error": "child died"}) + "\n")
        sys.stdout.flush()


if __name__ == "__main__":
    serve()
