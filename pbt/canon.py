"""Independent structural form of a live schema.

canon(schema) walks ``schema.props`` (public iteration + get) into nested tuples with explicit
type tags, so that 1 / True / 1.0 are distinct, ``...`` and Nil are explicit, nested schemas
are recursed into and dict keys are listed order-independently.  It never calls d42's ``==``
(which is itself under test in C15) and is the snapshot used for purity checks.
spec_of(schema) reads a live schema back into a SchemaSpec (pbt.specs format).
"""
import datetime as _dt
import uuid


def _is_nil(x):
    return type(x).__name__ == "NilType"


_HUGE = 10 ** 4000


def atom(x):
    """Type-tagged, hashable rendering of a plain value."""
    if x is None or x is Ellipsis:
        return (type(x).__name__,)
    if _is_nil(x):
        return ("Nil",)
    if isinstance(x, float):
        return ("float", x.hex() if x == x and x not in (float("inf"), float("-inf")) else repr(x))
    if type(x) is int and (x > _HUGE or x < -_HUGE):
        return ("int", hex(x))      # (no decimal text for ints beyond CPython's 4300-digit conversion limit)
    if isinstance(x, (bool, int, str, bytes, uuid.UUID, _dt.datetime, _dt.date)):
        return (type(x).__name__, repr(x))
    if isinstance(x, tuple):
        return ("tuple",) + tuple(atom(i) for i in x)
    if isinstance(x, list):
        return ("list",) + tuple(atom(i) for i in x)
    if isinstance(x, frozenset):
        return ("frozenset",) + tuple(sorted(atom(i) for i in x))
    if isinstance(x, dict):
        return ("dict",) + tuple(sorted(((atom(k), atom(v)) for k, v in x.items()), key=repr))
    if type(x).__name__ == "optional" and hasattr(x, "key"):
        return ("optional", atom(x.key))
    return ("object", type(x).__name__, id(x))


def canon(s, elem_hook=None):
    """elem_hook(schema) -> replacement canon or None, applied to members of element lists
    (used by classifiers of known findings only)."""
    from d42.declaration import Schema
    if s is Ellipsis:
        return ("...",)
    if not isinstance(s, Schema):
        return ("value", atom(s))
    if id(s) in _ACTIVE:
        return ("cycle", type(s).__name__)      # a schema that (through aliasing) contains itself
    _ACTIVE.add(id(s))
    try:
        items = []
        for name in sorted(s.props):
            val = s.props.get(name)
            if _is_nil(val):
                continue
            items.append((name, _cprop(name, val, elem_hook)))
        return (type(s).__name__, tuple(items))
    finally:
        _ACTIVE.discard(id(s))


_ACTIVE = set()


def _cprop(name, val, elem_hook=None):
    from d42.declaration import Schema
    if elem_hook is not None:
        def canon_(x):
            if name == "elements" and isinstance(x, Schema):
                r = elem_hook(x)
                if r is not None:
                    return r
            return canon(x, elem_hook)
    else:
        canon_ = canon
    return _cprop2(name, val, canon_)


def _cprop2(name, val, canon):
    from d42.declaration import Schema
    if isinstance(val, Schema) or val is Ellipsis:
        return canon(val)
    if name == "keys" and isinstance(val, dict):
        ents = []
        for k, pair in val.items():
            if k is Ellipsis:
                ents.append((("...",), ("...",), False))
            else:
                sch, opt = pair
                ents.append((atom(k), canon(sch), bool(opt)))
        return ("keys", tuple(sorted(ents, key=repr)))
    if isinstance(val, (list, tuple)) and any(isinstance(x, Schema) or x is Ellipsis for x in val):
        return (type(val).__name__,) + tuple(canon(x) for x in val)
    if isinstance(val, list) and name == "elements":
        return ("list",) + tuple(canon(x) for x in val)
    if isinstance(val, tuple) and name == "types":
        return ("tuple",) + tuple(canon(x) for x in val)
    return atom(val)


def key_order(s):
    """Insertion order of a dict schema's keys (separately from canon)."""
    keys = s.props.get("keys")
    if _is_nil(keys):
        return None
    return tuple(atom(k) for k in keys)


# ----------------------------------------------------------------------------------------------
_SIMPLE = {"NoneSchema": "none", "BoolSchema": "bool", "IntSchema": "int", "FloatSchema": "float",
           "StrSchema": "str", "BytesSchema": "bytes", "UUID4Schema": "uuid4",
           "DateTimeSchema": "datetime", "DateSchema": "date"}


def _lenform(p):
    ln, mn, mx = p.get("len"), p.get("min_len"), p.get("max_len")
    if not _is_nil(ln):
        return ["eq", ln]
    if not _is_nil(mn) and not _is_nil(mx):
        return ["range", mn, mx]
    if not _is_nil(mn):
        return ["min", mn]
    if not _is_nil(mx):
        return ["max", mx]
    return None


def spec_of(s):
    """live schema -> SchemaSpec.  Raises ValueError for shapes a spec cannot express."""
    cls = type(s).__name__
    p = s.props
    if cls in _SIMPLE:
        out = {"t": _SIMPLE[cls]}
        for k in ("value", "min", "max", "precision", "alphabet", "substr", "pattern"):
            v = p.get(k)
            if not _is_nil(v):
                out[k] = v
        if out["t"] == "str":
            lf = _lenform(p)
            if lf:
                out["len"] = lf
        return out
    if cls == "ListSchema":
        out = {"t": "list"}
        lf = _lenform(p)
        if lf:
            out["len"] = lf
        typ, el = p.get("type"), p.get("elements")
        if not _is_nil(typ):
            out["form"] = "typed"
            out["elem"] = spec_of(typ)
        elif _is_nil(el):
            out["form"] = "untyped"
        else:
            first = len(el) > 0 and el[0] is Ellipsis
            last = len(el) > 0 and el[-1] is Ellipsis
            if len(el) == 1 and first:
                out["form"], body = "ellipsis", []
            elif first and last:
                out["form"], body = "contains", el[1:-1]
            elif last:
                out["form"], body = "head", el[:-1]
            elif first:
                out["form"], body = "tail", el[1:]
            else:
                out["form"], body = "exact", el
            if any(x is Ellipsis for x in body):
                raise ValueError("ellipsis in the middle of an element list")
            out["elems"] = [spec_of(x) for x in body]
        return out
    if cls == "DictSchema":
        keys = p.get("keys")
        if _is_nil(keys):
            return {"t": "dict"}
        ents, relaxed, at = [], False, None
        for k, pair in keys.items():
            if k is Ellipsis:
                relaxed, at = True, len(ents)
            else:
                ents.append({"key": k, "opt": bool(pair[1]), "spec": spec_of(pair[0])})
        out = {"t": "dict", "entries": ents, "relaxed": relaxed}
        if relaxed and at < len(ents):
            out["relaxed_at"] = at          # `...: ...` was not declared last
        return out
    if cls == "AnySchema":
        types = p.get("types")
        if _is_nil(types):
            return {"t": "any"}
        return {"t": "any", "alts": [spec_of(x) for x in types]}
    if cls == "TypeAliasSchema":
        return {"t": "alias", "name": p.get("name"), "spec": spec_of(p.type)}
    if cls == "Fwd":
        return {"t": "custom", "spec": spec_of(p.get("inner"))}
    raise ValueError(f"spec_of: unsupported schema class {cls}")
