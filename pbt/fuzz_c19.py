"""atheris (libFuzzer) campaign for C19: mutate Python source text taken from the generated corpus.

    python -m pbt.fuzz_c19 <out.json> <corpus_dir> -runs=N -seed=S -max_total_time=T
Inputs that CPython does not parse are skipped; the AST-differential oracle of pbt.props.c19 is
inside the target.
"""
import ast
import json
import os
import sys
import warnings

import atheris

with atheris.instrument_imports(include=["d42.migration"]):
    from d42.migration.migrate_v1_to_v2 import mapping, rewrite_imports

from pbt.core import Violation
from pbt.props import c19

STATS = {"execs": 0, "parsed": 0, "with_mapped_import": 0, "returned_none": 0}
OUT = [None]


def _finish(violation=None):
    if OUT[0]:
        with open(OUT[0], "w", encoding="utf-8") as fh:
            json.dump({"stats": STATS, "violation": violation}, fh)


def TestOneInput(data):
    STATS["execs"] += 1
    if STATS["execs"] % 2000 == 0:
        _finish()
    try:
        src = data.decode("utf-8")
    except UnicodeDecodeError:
        return
    if "\x00" in src:
        return
    try:
        with warnings.catch_warnings():
            warnings.simplefilter("ignore")
            ast.parse(src)
    except (SyntaxError, ValueError, RecursionError, MemoryError):
        return
    STATS["parsed"] += 1
    try:
        out = rewrite_imports(src, mapping)
    except Exception as e:  # noqa
        _finish({"key": "rewriter-raises", "src": src, "detail": f"rewrite_imports({src!r}) raised {e!r}"})
        os._exit(77)
    if out is None:
        STATS["returned_none"] += 1
    try:
        if c19.oracle(src, out, mapping):
            STATS["with_mapped_import"] += 1
    except Violation as v:
        _finish({"key": v.key, "src": src, "detail": v.detail})
        os._exit(77)
    except RecursionError:
        return


def main():
    OUT[0] = sys.argv[1]
    argv = [sys.argv[0]] + sys.argv[2:]
    atheris.Setup(argv, TestOneInput)
    try:
        atheris.Fuzz()
    finally:
        _finish()


if __name__ == "__main__":
    main()
