"""Value generators that are independent of d42's own generator.

conforming(spec)     strategy: a value built directly from the spec so that it conforms
near(spec)           strategy: like conforming, but with (at most) one spec-aware, boundary-seeking
                     near-miss applied at a drawn node (min-1, max+1, len+-1, char outside the
                     alphabet, dropped required key, shifted window, ...)
perturb(value)       strategy: exactly one structural step at a drawn position of any plain value
zoo / inject         hostile-value zoo of C08 and its injection into a value
realize(recipe)      value recipe (may contain Zoo markers) -> fresh Python objects

Which of these values conform is decided by pbt.model only; nothing here is an oracle.
"""
import collections
import datetime as _dt
import decimal
import fractions
import math
import uuid

from hypothesis import strategies as st

from . import model, specs
from .codec import Wrapped, Zoo


class Unsat(Exception):
    """No conforming value can be built for this spec (by this generator)."""


# ----------------------------------------------------------------------------------------------
junk_scalar = st.one_of(
    st.none(), st.booleans(), st.integers(-3, 3), st.sampled_from(["", "a", "zz", "é"]),
    st.sampled_from([0.5, -1.0, 1e9]), st.just(b"x"),
    # equal-valued scalars of different types (1 == 1.0 == True, 0 == 0.0 == False): anything that
    # memoises or deduplicates by value confuses them
    st.sampled_from([0, 0.0, False, 1, 1.0, True, 2, 2.0, -1, -1.0]),
)
# containers holding equal-valued scalars of different types side by side
twins = st.sampled_from([[1, 1.0], [0.0, 0, 7], [True, 1], [1.0, True], [2.0, 2, "x"], [False, 0.0],
                         {"count": 0, "enabled": False}, {"a": 1.0, "q": 1}, [-1, -1.0], [[1], [1.0]]])
junk = st.one_of(
    junk_scalar, junk_scalar,
    st.lists(junk_scalar, max_size=3),
    st.dictionaries(st.sampled_from(["a", "q", "zz"]), junk_scalar, max_size=3),
    twins,
)
# a member of an unconstrained position (untyped list, `...` padding, undeclared dict): mostly scalars,
# sometimes a small nested container
junk_member = st.integers(0, 4).flatmap(lambda i: junk if i == 0 else junk_scalar)


def _bounds(lf, floor=0):
    """LEN -> (lowest, highest|None) admissible length, at least `floor`."""
    lo, hi = floor, None
    if lf is not None:
        k = lf[0]
        if k == "eq":
            lo, hi = max(floor, lf[1]), lf[1]
        elif k == "min":
            lo = max(floor, lf[1])
        elif k == "max":
            hi = lf[1]
        else:
            lo, hi = max(floor, lf[1]), lf[2]
    if hi is not None and lo > hi:
        raise Unsat(f"length window empty: {lf} floor={floor}")
    return lo, hi


def _pick_len(draw, lo, hi, spread=4):
    if hi is None:
        hi = lo + spread
    return draw(st.one_of(st.just(lo), st.just(hi), st.integers(lo, hi)))


class Mut:
    """Single near-miss budget handed down the spec tree."""

    def __init__(self, budget=1, eager=False):
        self.budget = budget
        self.applied = None
        self.eager = eager

    def take(self, draw, what, always=False):
        if self.budget > 0 and (always or draw(st.integers(0, 4)) > 0 if self.eager
                                else (always or draw(st.booleans()))):
            self.budget -= 1
            self.applied = what
            return True
        return False


def _other_type(draw, v):
    cands = [None, True, 0, 1, 1.0, "", "1", b"", [], {}, (1,), "None"]
    cands = [c for c in cands if type(c) is not type(v)]
    return draw(st.sampled_from(cands))


# ----------------------------------------------------------------------------------------------
TYPED_ZOO = {
    "float": ["nan", "inf", "-inf", "float_subclass", "float_max", "float_tiny", "-0.0", "decimal", "fraction", "int_2_53_1"],
    "int": ["true", "false", "int_2_64", "int_neg_2_64", "int_10_400", "int_neg_10_400", "int_subclass", "decimal", "fraction"],
    "bool": ["true", "false", "int_subclass"],
    "str": ["str_subclass", "str_surrogate", "str_nul", "str_long", "empty_str"],
    "bytes": ["bytes_subclass", "bytes_long", "bytearray", "memoryview"],
    "list": ["list_subclass", "list_nested", "empty_list", "tuple", "range", "list_1001_strs", "userlist", "deque", "deque_1001"],
    "dict": ["dict_subclass", "ordereddict", "defaultdict", "dict_nonstr_keys", "empty_dict", "dict_twin_nan_keys", "dict_ellipsis_key", "dict_ellipsis_entry",
             "dict_1001_keys", "mappingproxy", "userdict", "chainmap"],
    "uuid4": ["uuid1", "uuid3", "uuid5", "uuid_nil", "uuid4"],
    "datetime": ["datetime_aware", "datetime_naive", "datetime_min", "datetime_max", "date_max", "time",
                 "datetime_max_minus3h", "datetime_min_plus3h"],
    "date": ["datetime_naive", "datetime_aware", "date_min", "date_max", "datetime_max"],
    "none": ["nil", "ellipsis", "notimplemented", "false"],
}


def _gen(draw, spec, mut):
    t = spec["t"]
    near = mut is not None
    if near and getattr(mut, "zoo", False) and t in TYPED_ZOO and mut.take(draw, "zoo:" + t):
        # a hostile value that passes (or nearly passes) this node's type guard
        return Zoo(draw(st.sampled_from(TYPED_ZOO[t])))
    if t == "none":
        if near and mut.take(draw, "none:other"):
            return draw(st.sampled_from([False, 0, "", [], "None", 0.0]))
        return None
    if t == "bool":
        v = spec["value"] if "value" in spec else draw(st.booleans())
        if near and mut.take(draw, "bool:other"):
            return draw(st.sampled_from([not v, int(v), None, str(v), float(v)]))
        return v
    if t == "int":
        return _gen_int(draw, spec, mut)
    if t == "float":
        return _gen_float(draw, spec, mut)
    if t == "str":
        return _gen_str(draw, spec, mut)
    if t == "bytes":
        v = spec["value"] if "value" in spec else draw(specs.bytes_)
        if near and mut.take(draw, "bytes:other"):
            return draw(st.sampled_from([v + b"\0", v[:-1] if v else b"q", v.decode("latin1"),
                                         Zoo("bytearray"), None, list(v)]))
        return v
    if t == "uuid4":
        v = spec["value"] if "value" in spec else draw(specs.uuid4s)
        if near and mut.take(draw, "uuid4:other"):
            return draw(st.sampled_from([
                uuid.UUID(int=v.int ^ 1, version=4), uuid.UUID(int=v.int, version=1),
                uuid.UUID(int=v.int, version=5), str(v), v.int, None, Zoo("uuid_nil")]))
        return v
    if t == "datetime":
        v = spec["value"] if "value" in spec else draw(specs.datetimes)
        if near and mut.take(draw, "datetime:other"):
            alt = [v.date(), v.isoformat(), None, v.timestamp() if v.year > 1970 and v.year < 3000 else 0]
            if v < _dt.datetime.max.replace(tzinfo=v.tzinfo):
                alt.append(v + _dt.timedelta(microseconds=1))
            if v.tzinfo is None:
                alt.append(v.replace(tzinfo=_dt.timezone.utc))
            else:
                alt.append(v.replace(tzinfo=None))
            return draw(st.sampled_from(alt))
        if "value" in spec and v.tzinfo is not None and draw(st.integers(0, 2)) == 0:
            # the same moment written in another UTC offset: equal to the declared value
            try:
                return v.astimezone(_dt.timezone(_dt.timedelta(hours=draw(st.sampled_from([-5, 2, 0, 9])),
                                                               minutes=draw(st.sampled_from([0, 30])))))
            except (OverflowError, ValueError):
                return v
        return v
    if t == "date":
        v = spec["value"] if "value" in spec else draw(specs.plain_dates)
        if near and mut.take(draw, "date:other"):
            if isinstance(v, _dt.datetime):
                return draw(st.sampled_from([v.isoformat(), None, v.date(), v + _dt.timedelta(days=1),
                                             v + _dt.timedelta(microseconds=1)]))
            alt = [v.isoformat(), None, v.toordinal(),
                   _dt.datetime(v.year, v.month, v.day)]
            if v < _dt.date.max:
                alt.append(v + _dt.timedelta(days=1))
            else:
                alt.append(v - _dt.timedelta(days=1))
            return draw(st.sampled_from(alt))
        return v
    if t == "list":
        return _gen_list(draw, spec, mut)
    if t == "dict":
        return _gen_dict(draw, spec, mut)
    if t == "any":
        if "alts" not in spec:
            return draw(junk)
        if not spec["alts"]:
            raise Unsat("any() without alternatives")
        order = list(draw(st.permutations(range(len(spec["alts"])))))
        last = None
        for i in order:
            try:
                return _gen(draw, spec["alts"][i], mut)
            except Unsat as e:
                last = e
        raise last
    if t in ("alias", "custom"):
        return _gen(draw, spec["spec"], mut)
    if t == "or":
        first, second = (spec["a"], spec["b"]) if draw(st.booleans()) else (spec["b"], spec["a"])
        try:
            return _gen(draw, first, mut)
        except Unsat:
            return _gen(draw, second, mut)
    if t in ("add", "required"):
        return _gen_dict(draw, model.resolve_dict(spec), mut)
    raise ValueError(f"values: unknown node {t!r}")


def _gen_int(draw, spec, mut):
    lo, hi = spec.get("min"), spec.get("max")
    if "value" in spec:
        v = spec["value"]
        if (lo is not None and v < lo) or (hi is not None and v > hi):
            raise Unsat("int value outside its bounds")
    else:
        if lo is not None and hi is not None:
            if lo > hi:
                raise Unsat("int min > max")
            v = draw(st.one_of(st.just(lo), st.just(hi), st.integers(lo, hi)))
        elif lo is not None:
            v = lo + draw(st.one_of(st.integers(0, 3), st.sampled_from([0, 2 ** 62, 2 ** 64])))
        elif hi is not None:
            v = hi - draw(st.one_of(st.integers(0, 3), st.sampled_from([0, 2 ** 62, 2 ** 64])))
        else:
            v = draw(specs.ints)
    if mut is not None and mut.take(draw, "int:near"):
        cands = [v + 1, v - 1, float(v) if abs(v) < 2 ** 53 else None, str(v), None, bool(v % 2)]
        if lo is not None:
            cands += [lo - 1, lo - 1, lo]
        if hi is not None:
            cands += [hi + 1, hi + 1, hi]
        return draw(st.sampled_from(cands))
    return v


def _gen_float(draw, spec, mut):
    lo, hi = spec.get("min"), spec.get("max")
    p = spec.get("precision")
    if "value" in spec:
        v = spec["value"]
        if (lo is not None and v < lo) or (hi is not None and v > hi):
            raise Unsat("float value outside its bounds")
    else:
        if lo is not None and hi is not None:
            if lo > hi:
                raise Unsat("float min > max")
            f = draw(st.one_of(st.just(0.0), st.just(1.0), st.floats(0, 1)))
            v = lo + (hi - lo) * f
            if not (lo <= v <= hi):
                v = lo
        elif lo is not None:
            v = lo + abs(draw(specs.nice_floats))
            if v < lo or math.isinf(v):
                v = lo
        elif hi is not None:
            v = hi - abs(draw(specs.nice_floats))
            if v > hi or math.isinf(v):
                v = hi
        else:
            v = draw(specs.finite_floats)
    if mut is not None and mut.take(draw, "float:near"):
        cands = [v + 1.0, v - 1.0, v * (1 + 1e-5) + 1e-5, v * (1 + 1e-4) if v else 1e-300, None, str(v),
                 float("inf"), float("-inf"), float("nan")]
        if math.isfinite(v) and v == int(v) and abs(v) < 2 ** 53:
            cands.append(int(v))
        cands += [2 ** 53 + 1, 10 ** 22 + 1]          # whole numbers no float equals
        if "value" in spec:
            step = 3 * 10.0 ** -(p if p is not None else 4)
            cands += [v + step, v - step, math.nextafter(v, math.inf), v * (1 + 1e-13)]
            if p is not None:
                # different numbers that are the same at the declared precision
                cands += [v + step / 10, v - step / 10, v + step / 20, v - step / 20, round(v, p)]
        if lo is not None and not math.isinf(lo):
            cands += [math.nextafter(lo, -math.inf), lo - 1.0, lo]
        if hi is not None and not math.isinf(hi):
            cands += [math.nextafter(hi, math.inf), hi + 1.0, hi]
        return draw(st.sampled_from(cands))
    return v


def _gen_str(draw, spec, mut):
    near = mut is not None
    if "value" in spec:
        v = spec["value"]
    elif "pattern" in spec:
        try:
            v = draw(st.from_regex(spec["pattern"], fullmatch=True))
        except Exception as e:  # noqa  (hypothesis cannot serve some patterns)
            raise Unsat(f"from_regex: {e!r}")
    else:
        alpha = spec.get("alphabet")
        sub = spec.get("substr", "")
        if alpha is not None and any(ch not in alpha for ch in sub):
            raise Unsat("substr outside alphabet")
        lo, hi = _bounds(spec.get("len"), floor=len(sub))
        if alpha == "":
            if lo > 0:
                raise Unsat("empty alphabet with positive length")
            n = 0
        else:
            n = _pick_len(draw, lo, hi, spread=draw(st.sampled_from([0, 3, 3, 35])))
        chars = alpha if alpha else specs.TEXT_ALPHABET
        need = n - len(sub)
        if need > 60:
            unit = "".join(draw(st.lists(st.sampled_from(chars), min_size=5, max_size=5)))
            fill = (unit * (need // 5 + 1))[:need]
        else:
            fill = "".join(draw(st.lists(st.sampled_from(chars), min_size=need, max_size=need))) if need > 0 else ""
        off = draw(st.integers(0, len(fill)))
        v = fill[:off] + sub + fill[off:]
    if near and mut.take(draw, "str:near"):
        cands = [v + "a", v[:-1] if v else "a", v[1:] if v else "b", None, 0, list(v),
                 v.encode("utf-8"), v.upper() if v.upper() != v else v + "Z", v + "Ж", v + "\n", v + "\n",
                 "Ж" + v, Zoo("str_subclass")]
        lf = spec.get("len")
        if lf is not None:
            lo, hi = _bounds(lf) if _safe_bounds(lf) else (0, None)
            base = v if v else "a"
            if lo > 0:
                cands.append((base * (lo + 1))[:lo - 1])
            if hi is not None and hi >= 0:
                cands.append((base * (hi + 2))[:hi + 1])
        if spec.get("alphabet"):
            a = spec["alphabet"]
            outside = next((c for c in "q#Zz9" if c not in a), "Ж")
            i = draw(st.integers(0, len(v)))
            cands.append(v[:i] + outside + v[i + 1:] if v else outside)
            cands.append(v[:i] + outside + v[i + 1:] if v else outside)
            if len(v) >= 3:
                cands.append(v[:1] + outside + v[2:])                      # strictly inside the string
                cands.append(v[:len(v) // 2] + outside + v[len(v) // 2 + 1:])
        if spec.get("substr"):
            s = spec["substr"]
            cands.append(v.replace(s, s[:-1], 1))
            cands.append(v.replace(s, "", 1))
        return draw(st.sampled_from(cands))
    return v


def _safe_bounds(lf):
    try:
        _bounds(lf)
        return True
    except Unsat:
        return False


def _gen_list(draw, spec, mut):
    near = mut is not None
    # decide *before* the members are built whether the near-miss happens at this level (otherwise the
    # first member would nearly always take the budget and list-level steps would be starved)
    here = near and mut.take(draw, "list:near")
    if here:
        mut = None
    form = spec["form"]
    lf = spec.get("len")
    if form in ("untyped", "ellipsis", "typed"):
        lo, hi = _bounds(lf)
        n = _pick_len(draw, lo, hi, spread=3)
        if n > 400:
            raise Unsat("list too long to build")
        if n > 60:
            # a long list: three members built, then repeated in turn
            base = [_gen(draw, spec["elem"], mut) if form == "typed" else draw(junk_member) for _ in range(3)]
            v = [base[i % 3] for i in range(n)]
        elif form == "typed":
            v = [_gen(draw, spec["elem"], mut) for _ in range(n)]
        else:
            v = [draw(junk_member) for _ in range(n)]
    else:
        el = spec["elems"]
        k = len(el)
        if form == "exact":
            if not model._len_ok(lf, k):
                raise Unsat("exact list contradicts its len")
            v = [_gen(draw, e, mut) for e in el]
        else:
            lo, hi = _bounds(lf, floor=k)
            n = _pick_len(draw, lo, hi, spread=3)
            pad = [draw(junk_member) for _ in range(n - k)]
            body = [_gen(draw, e, mut) for e in el]
            if form == "head":
                v = body + pad
            elif form == "tail":
                v = pad + body
            else:
                off = draw(st.integers(0, len(pad)))
                if len(body) >= 2 and model._len_ok(lf, len(pad) + 2 * len(body)) and draw(st.integers(0, 2)) == 0:
                    # a decoy before the real window: the window's beginning followed by something else
                    # (a partial match that a window search must not stop at)
                    pad = pad[:off] + body[:-1] + [draw(junk_scalar)] + pad[off:]
                    off = len(pad) if draw(st.booleans()) else off + len(body)
                v = pad[:off] + body + pad[off:]
    if here:
        ops = ["tuple", "append", "none"]
        if v:
            ops += ["drop", "drop-first", "dup", "insert", "swap", "junk-elem", "twin-elem", "dup-as-twin"]
            if any(type(x) in (int, float, bool) for x in v):
                ops += ["dup-as-twin", "dup-as-twin", "twin-elem"]      # numbers have equal-valued twins
        if lf is not None and _safe_bounds(lf):
            ops += ["len-lo", "len-hi"]
        op = draw(st.sampled_from(ops))
        if op == "tuple":
            return tuple(v)
        if op == "none":
            return None
        if op == "append":
            return v + [draw(junk_scalar)]
        if op == "drop":
            return v[:-1]
        if op == "drop-first":
            return v[1:]
        if op == "dup":
            i = draw(st.integers(0, len(v) - 1))
            return v[:i] + [v[i]] + v[i:]
        if op == "insert":
            i = draw(st.integers(0, len(v)))
            return v[:i] + [draw(junk_scalar)] + v[i:]
        if op == "swap":
            i = draw(st.integers(0, len(v) - 1))
            j = draw(st.integers(0, len(v) - 1))
            w = list(v)
            w[i], w[j] = w[j], w[i]
            return w
        if op == "junk-elem":
            i = draw(st.integers(0, len(v) - 1))
            w = list(v)
            w[i] = draw(junk_scalar)
            return w
        if op in ("twin-elem", "dup-as-twin"):
            # an element replaced by (or followed by) the equal-valued scalar of another type: 1 -> 1.0 -> True
            numeric = [j for j, y in enumerate(v) if type(y) in (int, float, bool)]
            i = draw(st.sampled_from(numeric)) if numeric else draw(st.integers(0, len(v) - 1))
            x = v[i]
            twin = {int: float, float: int, bool: int}.get(type(x))
            try:
                t = twin(x) if twin and x == twin(x) else draw(junk_scalar)
            except (OverflowError, ValueError):
                t = draw(junk_scalar)
            if op == "twin-elem":
                w = list(v)
                w[i] = t
                return w
            return v[:i + 1] + [t] + v[i + 1:]
        lo, hi = _bounds(lf)
        if op == "len-lo":
            return v[:max(0, lo - 1)] if len(v) >= lo - 1 else v
        if hi is None:
            return v
        w = list(v)
        while len(w) < hi + 1:
            w.append(w[-1] if w else draw(junk_scalar))
        return w[:hi + 1]
    return v


_EXTRA_KEYS = ["extra", "zz", 99, "a ", None, ("x",)]


def _gen_dict(draw, spec, mut):
    near = mut is not None
    here = near and mut.take(draw, "dict:near")
    if here:
        mut = None
    if "entries" not in spec:
        v = draw(st.dictionaries(st.sampled_from(["a", "b", 2, None]), junk_member, max_size=3))
        if here:
            return draw(st.sampled_from([None, list(v.items()), "{}", Zoo("ordereddict")]))
        return v
    ents = spec["entries"]
    v = {}
    for e in ents:
        if e["opt"] and not draw(st.booleans()):
            continue
        v[e["key"]] = _gen(draw, e["spec"], mut)
    declared = [e["key"] for e in ents]
    free = [k for k in _EXTRA_KEYS if not _key_in(k, declared)]
    if spec.get("relaxed") and draw(st.booleans()):
        for k in draw(st.lists(st.sampled_from(free), max_size=2, unique_by=repr)):
            v[k] = draw(junk_scalar)
    if here:
        ops = ["extra", "none", "pairs", "subclass", "subclass-drop"]
        if v:
            ops += ["drop", "drop", "rename", "junk-member"]
        missing_opt = [e for e in ents if e["opt"] and not _key_in(e["key"], list(v))]
        if missing_opt:
            ops.append("add-optional-junk")
        op = draw(st.sampled_from(ops))
        if op == "none":
            return None
        if op == "pairs":
            return list(v.items())
        if op == "subclass":
            # same content in a dict subclass (defaultdict, OrderedDict, __missing__ ...): still a dict
            return Wrapped(draw(st.sampled_from(DICT_WRAPPERS)), dict(v))
        if op == "subclass-drop":
            w = dict(v)
            if w:
                del w[draw(st.sampled_from(list(w)))]
            return Wrapped(draw(st.sampled_from(DICT_WRAPPERS)), w)
        w = dict(v)
        if op == "extra":
            w[draw(st.sampled_from(free))] = draw(junk_scalar)
            return w
        if op == "add-optional-junk":
            e = draw(st.sampled_from(missing_opt))
            w[e["key"]] = draw(junk_scalar)
            return w
        k = draw(st.sampled_from(list(v)))
        if op == "drop":
            del w[k]
        elif op == "rename":
            val = w.pop(k)
            w[draw(st.sampled_from(free))] = val
        else:
            w[k] = draw(junk_scalar)
        return w
    return v


def _key_in(k, keys):
    try:
        return any(type(k) is type(x) and k == x for x in keys) or k in keys
    except TypeError:
        return False


def wrap_dicts(draw, v, drop=False):
    """the same value with (some of) its dicts as instances of plain dict subclasses; optionally one key
    dropped from one of them"""
    if isinstance(v, list):
        return [wrap_dicts(draw, x, drop) for x in v]
    if isinstance(v, dict):
        inner = {k: wrap_dicts(draw, x, drop) for k, x in v.items()}
        if drop and inner and draw(st.booleans()):
            del inner[draw(st.sampled_from(list(inner)))]
        if draw(st.integers(0, 3)) > 0:
            return Wrapped(draw(st.sampled_from(DICT_WRAPPERS)), inner)
        return inner
    return v


@st.composite
def conforming(draw, spec):
    """A value conforming to spec, built from the spec alone.  Raises Unsat if none is found."""
    return _gen(draw, spec, None)


@st.composite
def near_multi(draw, spec, budget=3):
    """(value, n_applied): conforming except for up to `budget` near-miss steps at drawn nodes."""
    m = Mut(budget, eager=True)
    v = _gen(draw, spec, m)
    return v, budget - m.budget


@st.composite
def typed_zoo(draw, spec, budget=2):
    """(value, n): conforming value with up to `budget` hostile zoo objects placed at nodes whose
    type guard they pass (inf/nan under float, bool and huge ints under int, subclasses, non-v4
    UUIDs under uuid4, datetime under date...)."""
    m = Mut(budget, eager=True)
    m.zoo = True
    v = _gen(draw, spec, m)
    return v, budget - m.budget


@st.composite
def near(draw, spec):
    """(value, applied-mutation-name|None): conforming except for at most one near-miss step."""
    m = Mut(1)
    v = _gen(draw, spec, m)
    return v, m.applied


# ----------------------------------------------------------------------------------------------
# generic one-step structural perturbation of a plain value (no spec needed)
def paths(v, prefix=()):
    yield prefix
    if isinstance(v, list):
        for i, x in enumerate(v):
            yield from paths(x, prefix + (("i", i),))
    elif isinstance(v, dict):
        for k, x in v.items():
            yield from paths(x, prefix + (("k", k),))


def get_at(v, path):
    for kind, k in path:
        v = v[k]
    return v


def replace_at(v, path, new):
    if not path:
        return new
    (kind, k), rest = path[0], path[1:]
    if kind == "i":
        w = list(v)
        w[k] = replace_at(v[k], rest, new)
        return w
    w = dict(v)
    w[k] = replace_at(v[k], rest, new)
    return w


def _step(draw, x):
    """One semantic step away from x (kind, content, length, key set)."""
    if x is None:
        return draw(st.sampled_from([False, 0, "", "None", [], {}]))
    if isinstance(x, bool):
        return draw(st.sampled_from([not x, None, str(x), int(x) + 2, [x]]))
    if isinstance(x, int):
        alt = [x + 1, x - 1, str(x), None, [x], -x if x else 7]
        if abs(x) < 2 ** 53:
            alt.append(float(x) + 0.5)
            if x not in (0, 1):
                alt.append(float(x))
        return draw(st.sampled_from(alt))
    if isinstance(x, float):
        if math.isinf(x) or math.isnan(x):
            return draw(st.sampled_from([0.0, None, str(x), 1]))
        d = max(1e-5, abs(x) * 1e-5)
        alt = [x + d, x - d, x + 1.0, str(x), None, -x if x else 1.5]
        # purely relative steps: they matter for magnitudes far below 1 (1e-17 vs 2e-17, 0.0 vs 5e-324)
        alt += [x * 2, x / 2, x * (1 + 1e-4)] if x else [5e-324, 1e-300, -1e-17]
        if x == int(x) and abs(x) < 2 ** 53 and int(x) not in (0, 1):
            alt.append(int(x))
        return draw(st.sampled_from(alt))
    if isinstance(x, str):
        i = draw(st.integers(0, len(x)))
        alt = [x + "a", x[:i] + "Ж" + x[i:], x.encode("utf-8"), None, list(x), x + " "]
        import unicodedata
        for form in ("NFD", "NFC", "NFKC"):
            y = unicodedata.normalize(form, x)
            if y != x:
                alt += [y, y]      # canonically equivalent, but a different string
        if x:
            alt += [x[:-1], x[1:], x[:i] + x[i + 1:] if i < len(x) else x[:-1], x.swapcase()
                    if x.swapcase() != x else x + "b"]
        return draw(st.sampled_from(alt))
    if isinstance(x, bytes):
        alt = [x + b"\0", x.decode("latin1"), None, Zoo("bytearray"), list(x)]
        if x:
            alt += [x[:-1], bytes([x[0] ^ 1]) + x[1:]]
        return draw(st.sampled_from(alt))
    if isinstance(x, uuid.UUID):
        return draw(st.sampled_from([uuid.UUID(int=x.int ^ (1 << 70), version=4), str(x), x.int, None,
                                     uuid.UUID(int=x.int, version=1), x.bytes]))
    if isinstance(x, _dt.datetime):
        alt = [x.date(), x.isoformat(), None]
        if x < _dt.datetime.max.replace(tzinfo=x.tzinfo) - _dt.timedelta(days=2):
            alt += [x + _dt.timedelta(microseconds=1), x + _dt.timedelta(days=1)]
        else:
            alt += [x - _dt.timedelta(microseconds=1)]
        alt.append(x.replace(tzinfo=_dt.timezone.utc) if x.tzinfo is None else x.replace(tzinfo=None))
        return draw(st.sampled_from(alt))
    if isinstance(x, _dt.date):
        alt = [x.isoformat(), None, x.toordinal()]
        alt.append(x + _dt.timedelta(days=1) if x < _dt.date.max else x - _dt.timedelta(days=1))
        # the same calendar day as a datetime (midnight, and some time of that day): another kind of value
        alt += [_dt.datetime(x.year, x.month, x.day), _dt.datetime(x.year, x.month, x.day, 13, 30)]
        return draw(st.sampled_from(alt))
    if isinstance(x, list):
        ops = ["append", "tuple", "none", "dict"]
        if x:
            ops += ["drop", "drop-first", "dup", "swap"]
        op = draw(st.sampled_from(ops))
        if op == "append":
            i = draw(st.integers(0, len(x)))
            return x[:i] + [draw(junk_scalar)] + x[i:]
        if op == "tuple":
            return tuple(x)
        if op == "none":
            return None
        if op == "dict":
            return {i: e for i, e in enumerate(x)}
        if op == "drop":
            return x[:-1]
        if op == "drop-first":
            return x[1:]
        if op == "dup":
            i = draw(st.integers(0, len(x) - 1))
            return x[:i] + [x[i]] + x[i:]
        i = draw(st.integers(0, len(x) - 1))
        j = draw(st.integers(0, len(x) - 1))
        w = list(x)
        w[i], w[j] = w[j], w[i]
        return w
    if isinstance(x, dict):
        ops = ["add", "none", "pairs"]
        if x:
            ops += ["drop", "rename"]
        op = draw(st.sampled_from(ops))
        free = [k for k in _EXTRA_KEYS if not _key_in(k, list(x))]
        if op == "add":
            w = dict(x)
            w[draw(st.sampled_from(free))] = draw(junk_scalar)
            return w
        if op == "none":
            return None
        if op == "pairs":
            return list(x.items())
        k = draw(st.sampled_from(list(x)))
        w = dict(x)
        val = w.pop(k)
        if op == "rename":
            w[draw(st.sampled_from(free))] = val
        return w
    return None


@st.composite
def perturb(draw, value, min_depth=0):
    """(new_value, path) exactly one structural step away from `value` at a drawn position."""
    ps = list(paths(value))
    deep = [p for p in ps if len(p) >= min_depth]
    ps = deep or ps
    # bias towards deeper positions
    ps.sort(key=len)
    p = draw(st.sampled_from(ps + ps[len(ps) // 2:]))
    new = _step(draw, get_at(value, p))
    return replace_at(value, p, new), p


# ----------------------------------------------------------------------------------------------
# hostile zoo (C08): name -> factory of a *fresh* object
class _IntSub(int):
    pass


class _FloatSub(float):
    pass


class _StrSub(str):
    pass


class _BytesSub(bytes):
    pass


class _ListSub(list):
    pass


class _DictSub(dict):
    pass


class _Opaque:
    pass


def _fn():
    return None


def _nil():
    from niltype import Nil
    return Nil


ZOO = {
    "nan": lambda: float("nan"), "inf": lambda: float("inf"), "-inf": lambda: float("-inf"),
    "-0.0": lambda: -0.0, "float_max": lambda: 1.7976931348623157e308, "float_tiny": lambda: 5e-324,
    "int_2_64": lambda: 2 ** 64 + 1, "int_neg_2_64": lambda: -(2 ** 64) - 1,
    "int_10_400": lambda: 10 ** 400, "int_neg_10_400": lambda: -(10 ** 400),
    "true": lambda: True, "false": lambda: False,
    "decimal": lambda: decimal.Decimal("1.5"), "decimal_nan": lambda: decimal.Decimal("NaN"),
    "fraction": lambda: fractions.Fraction(1, 3), "complex": lambda: complex(1, 2),
    "tuple": lambda: (1, "a"), "tuple_empty": lambda: (), "set": lambda: {1, 2},
    "frozenset": lambda: frozenset({1}), "bytearray": lambda: bytearray(b"ab"),
    "memoryview": lambda: memoryview(b"ab"), "range": lambda: range(3),
    "int_subclass": lambda: _IntSub(3), "float_subclass": lambda: _FloatSub(1.5),
    "str_subclass": lambda: _StrSub("ab"), "bytes_subclass": lambda: _BytesSub(b"ab"),
    "list_subclass": lambda: _ListSub([1]), "dict_subclass": lambda: _DictSub(a=1),
    "ordereddict": lambda: collections.OrderedDict(a=1),
    "defaultdict": lambda: collections.defaultdict(int, a=1),
    "uuid1": lambda: uuid.UUID("12345678-1234-1234-8234-123456789abc"),
    "uuid3": lambda: uuid.uuid3(uuid.NAMESPACE_DNS, "x"),
    "uuid5": lambda: uuid.uuid5(uuid.NAMESPACE_DNS, "x"),
    "uuid_nil": lambda: uuid.UUID(int=0),
    "uuid4": lambda: uuid.UUID("12345678-1234-4234-8234-123456789abc"),
    "datetime_aware": lambda: _dt.datetime(2020, 1, 2, 3, 4, 5, tzinfo=_dt.timezone.utc),
    "datetime_naive": lambda: _dt.datetime(2020, 1, 2, 3, 4, 5),
    "datetime_min": lambda: _dt.datetime.min, "datetime_max": lambda: _dt.datetime.max,
    "date_min": lambda: _dt.date.min, "date_max": lambda: _dt.date.max,
    "time": lambda: _dt.time(1, 2), "timedelta": lambda: _dt.timedelta(1),
    "ellipsis": lambda: ..., "nil": _nil, "notimplemented": lambda: NotImplemented,
    "function": lambda: _fn, "class": lambda: _Opaque, "module": lambda: math,
    "object": lambda: object(), "opaque": lambda: _Opaque(),
    "str_surrogate": lambda: "\ud800", "str_nul": lambda: "a\0b", "str_long": lambda: "x" * 5000,
    "bytes_long": lambda: b"\xff" * 100, "list_nested": lambda: [[[]]],
    "dict_nonstr_keys": lambda: {None: 1, (1, 2): 2, 1.5: 3, b"k": 4, frozenset(): 5},
    # sequences that are not lists (a deque is a registered Sequence that cannot be sliced)
    "deque": lambda: collections.deque([1, "a"]), "deque_1001": lambda: collections.deque(range(1001)),
    "array": lambda: __import__("array").array("i", [1, 2, 3]),
    # aware datetimes within their UTC offset of the ends of the datetime range (conversion to UTC overflows)
    "datetime_max_minus3h": lambda: _dt.datetime.max.replace(tzinfo=_dt.timezone(_dt.timedelta(hours=-3))),
    "datetime_min_plus3h": lambda: _dt.datetime.min.replace(tzinfo=_dt.timezone(_dt.timedelta(hours=3))),
    "int_2_53_1": lambda: 2 ** 53 + 1,
    # the Ellipsis object is hashable: it can be a key (or a member) of a *value* too
    "dict_ellipsis_key": lambda: {"a": 1, ...: 1}, "dict_ellipsis_entry": lambda: {"a": 1, ...: ...},
    "list_of_ellipsis": lambda: [..., 1, ...],
    "empty_list": lambda: [], "empty_dict": lambda: {}, "empty_str": lambda: "",
    "list_1001_strs": lambda: ["x"] * 1001,
    "dict_1001_keys": lambda: {i: None for i in range(1001)},
    "mappingproxy": lambda: __import__("types").MappingProxyType({"a": 1}),
    "userdict": lambda: collections.UserDict({"a": 1}),
    "chainmap": lambda: collections.ChainMap({"a": 1}),
    "userlist": lambda: collections.UserList([1]),
    "userstring": lambda: collections.UserString("ab"),
    "re_compiled_icase": lambda: __import__("re").compile("AB", __import__("re").I),
    "dict_twin_nan_keys": lambda: {float("nan"): 1, float("nan"): 2, "a": 1},
    "list_twin_items": lambda: [2.5, 2.5, "x", "x"],
}
ZOO_KEYS = ["true", "tuple", "frozenset", "fraction", "decimal", "nan", "inf", "int_10_400", "uuid1",
            "datetime_aware", "date_max", "ellipsis", "nil", "object", "function", "class",
            "int_subclass", "str_subclass", "bytes_subclass", "float_subclass", "complex",
            "notimplemented", "range", "tuple_empty"]

zoo = st.sampled_from(sorted(ZOO)).map(Zoo)
zoo_key = st.sampled_from(ZOO_KEYS).map(Zoo)


def _missing_dict():
    class CountingDict(dict):
        def __missing__(self, key):
            return 0
    return CountingDict


WRAPPERS = {
    "defaultdict": lambda x: collections.defaultdict(int, x),
    "defaultdict_list": lambda x: collections.defaultdict(list, x),
    "ordereddict": lambda x: collections.OrderedDict(x),
    "counter": lambda x: collections.Counter(x),
    "missingdict": lambda x: _missing_dict()(x),
    "dictsub": lambda x: _DictSub(x),
    "listsub": lambda x: _ListSub(x),
    "strsub": lambda x: _StrSub(x),
    "intsub": lambda x: _IntSub(x),
    "floatsub": lambda x: _FloatSub(x),
    "bytessub": lambda x: _BytesSub(x),
}
DICT_WRAPPERS = ["defaultdict", "defaultdict_list", "ordereddict", "missingdict", "dictsub"]


def realize(v):
    """value recipe -> fresh Python objects (Zoo markers resolved, containers copied)."""
    if isinstance(v, Zoo):
        return ZOO[v.name]()
    if isinstance(v, Wrapped):
        return WRAPPERS[v.kind](realize(v.value))
    if isinstance(v, list):
        return [realize(x) for x in v]
    if isinstance(v, tuple):
        return tuple(realize(x) for x in v)
    if isinstance(v, dict):
        return {realize(k): realize(x) for k, x in v.items()}
    return v


def has_zoo(v):
    if isinstance(v, Zoo):
        return True
    if isinstance(v, Wrapped):
        return has_zoo(v.value)
    if isinstance(v, (list, tuple)):
        return any(has_zoo(x) for x in v)
    if isinstance(v, dict):
        return any(has_zoo(k) or has_zoo(x) for k, x in v.items())
    return False


@st.composite
def inject(draw, value):
    """(new_value, depth): a zoo item placed at a drawn position (element, dict value, dict key,
    or the whole value)."""
    ps = list(paths(value))
    p = draw(st.sampled_from(ps))
    target = get_at(value, p)
    if isinstance(target, dict) and draw(st.booleans()):
        w = dict(target)
        w[draw(zoo_key)] = draw(st.one_of(junk_scalar, zoo))
        return replace_at(value, p, w), len(p) + 1
    if isinstance(target, list) and draw(st.booleans()):
        i = draw(st.integers(0, len(target)))
        w = target[:i] + [draw(zoo)] + target[i:]
        return replace_at(value, p, w), len(p) + 1
    return replace_at(value, p, draw(zoo)), len(p)
