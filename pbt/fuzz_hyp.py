"""Coverage-guided driver: libFuzzer (atheris) mutates the choice sequence of a property's Hypothesis
strategy (test.hypothesis.fuzz_one_input), with d42 instrumented for coverage feedback.

    python -m pbt.fuzz_hyp <ID> <out.json> <corpus_dir> -runs=N -seed=S -max_total_time=T

The property's own check() is the oracle; the first violation that is not a listed known finding is
written to <out.json> (as a replayable case) and the process exits.
"""
import json
import os
import sys

import atheris

with atheris.instrument_imports(include=["d42"]):
    import d42  # noqa: F401
    import d42.custom_type  # noqa: F401
    import d42.migration.migrate_v1_to_v2  # noqa: F401

from hypothesis import HealthCheck, given, settings

from pbt import codec
from pbt.core import Ctx, HarnessError, Violation
from pbt.runner import load_findings, load_module

STATS = {"execs": 0, "valid": 0, "excluded_known": 0}
OUT = [None]


def _finish(violation=None):
    if OUT[0]:
        with open(OUT[0], "w", encoding="utf-8") as fh:
            json.dump({"stats": STATS, "violation": violation}, fh)


def main():
    pid = sys.argv[1].upper()
    OUT[0] = sys.argv[2]
    argv = [sys.argv[0]] + sys.argv[3:]
    mod = load_module(pid)
    open_f, _ = load_findings(pid)
    ctx = Ctx("thorough")

    @settings(database=None, deadline=None, suppress_health_check=list(HealthCheck))
    @given(mod.strategy("thorough"))
    def test(case):
        STATS["valid"] += 1
        try:
            mod.check(case, ctx)
        except Violation as v:
            key = mod.classify(case, v) if hasattr(mod, "classify") else v.key
            if (key or v.key) in open_f:
                STATS["excluded_known"] += 1
                return
            _finish({"key": key or v.key, "detail": v.detail, "case": codec.enc(case)})
            os._exit(77)
        except HarnessError:
            return

    fuzz = test.hypothesis.fuzz_one_input

    def one(data):
        STATS["execs"] += 1
        if STATS["execs"] % 500 == 0:
            _finish()
        fuzz(data)

    atheris.Setup(argv, one)
    try:
        atheris.Fuzz()
    finally:
        _finish()


if __name__ == "__main__":
    main()
