"""Reference semantics of a SchemaSpec, written from the statement of C02 (not from
d42/validation/_validator.py):  conforms(spec, value) -> True | False | None.

None = DONTCARE: the property (C02/C14) explicitly leaves the pair undecided; such pairs are
never compared against d42's verdict.  The zones are exactly:
  * bool where an int is declared (and True/False vs 1/0 as dict keys)   [isinstance(True, int)]
  * instances of *subclasses* of the declared built-in type (except the plain dict subclasses listed in
    DICT_SUBCLASSES, which are judged by their content), datetime under a date schema
  * float vs a fixed float value inside the tolerance band
  * NaN anywhere a float constraint (value/min/max) is involved
"""
import datetime as _dt
import math
import re
import uuid

ACCEPT, REJECT, DONTCARE = True, False, None
# dict subclasses whose membership / item access for *present* keys is that of dict (a defaultdict or a
# __missing__ dict is a dict; what it would invent for an absent key is not part of the value)
DICT_SUBCLASSES = {"defaultdict", "OrderedDict", "CountingDict", "_DictSub", "Counter"}


def _and(results):
    """Conjunction over three-valued results."""
    out = ACCEPT
    for r in results:
        if r is REJECT:
            return REJECT
        if r is DONTCARE:
            out = DONTCARE
    return out


def _or(results):
    out = REJECT
    for r in results:
        if r is ACCEPT:
            return ACCEPT
        if r is DONTCARE:
            out = DONTCARE
    return out


def _len_ok(lf, n):
    if lf is None:
        return True
    k = lf[0]
    if k == "eq":
        return n == lf[1]
    if k == "min":
        return n >= lf[1]
    if k == "max":
        return n <= lf[1]
    return lf[1] <= n <= lf[2]


def float_eq(v, w, precision=None):
    """v against fixed value w: True / False / None (inside the tolerance band)."""
    if math.isnan(v) or math.isnan(w):
        return DONTCARE
    if v == w:
        return ACCEPT
    if math.isinf(v) or math.isinf(w):
        return REJECT
    d = abs(v - w)
    if precision is None:
        # documented tolerance: math.isclose default = relative 1e-9, no absolute part
        if d <= 1e-12 * max(abs(w), abs(v)):
            return ACCEPT
        if d >= 1e-6 * max(abs(w), abs(v)):
            return REJECT
        return DONTCARE
    if max(abs(v), abs(w)) * 10.0 ** precision >= 2.0 ** 52:
        # the numbers scaled by 10**precision are beyond the range in which floats still tell neighbouring integers
        # apart: "equal at that precision" is not decidable in float arithmetic (8726269434780964.0 vs ...965.0 at
        # precision 5) - left aside
        return DONTCARE
    if d >= 2.5 * 10.0 ** -precision:
        return REJECT
    return DONTCARE


def conforms(spec, v):
    t = spec["t"]
    if t == "none":
        return v is None
    if t == "bool":
        if type(v) is not bool:
            return REJECT
        return v == spec["value"] if "value" in spec else ACCEPT
    if t == "int":
        if type(v) is bool:
            return DONTCARE
        if not isinstance(v, int):
            return REJECT
        if type(v) is not int:
            return DONTCARE
        if "value" in spec and v != spec["value"]:
            return REJECT
        if "min" in spec and v < spec["min"]:
            return REJECT
        if "max" in spec and v > spec["max"]:
            return REJECT
        return ACCEPT
    if t == "float":
        if not isinstance(v, float):
            return REJECT
        if type(v) is not float:
            return DONTCARE
        cons = [spec[k] for k in ("value", "min", "max") if k in spec]
        if math.isnan(v):
            return DONTCARE if cons else ACCEPT
        if any(math.isnan(c) for c in cons):
            return DONTCARE
        res = []
        if "value" in spec:
            res.append(float_eq(v, spec["value"], spec.get("precision")))
        if "min" in spec:
            res.append(not (v < spec["min"]))
        if "max" in spec:
            res.append(not (v > spec["max"]))
        return _and(res)
    if t == "str":
        if not isinstance(v, str):
            return REJECT
        if type(v) is not str:
            return DONTCARE
        if "value" in spec and v != spec["value"]:
            return REJECT
        if "pattern" in spec and re.search(spec["pattern"], v) is None:
            return REJECT
        if not _len_ok(spec.get("len"), len(v)):
            return REJECT
        if "alphabet" in spec and any(ch not in spec["alphabet"] for ch in v):
            return REJECT
        if "substr" in spec and spec["substr"] not in v:
            return REJECT
        return ACCEPT
    if t == "bytes":
        if not isinstance(v, bytes):
            return REJECT
        if type(v) is not bytes:
            return DONTCARE
        return v == spec["value"] if "value" in spec else ACCEPT
    if t == "uuid4":
        if not isinstance(v, uuid.UUID):
            return REJECT
        if type(v) is not uuid.UUID:
            return DONTCARE
        if v.version != 4:
            return REJECT
        return v == spec["value"] if "value" in spec else ACCEPT
    if t == "datetime":
        if not isinstance(v, _dt.datetime):
            return REJECT
        if type(v) is not _dt.datetime:
            return DONTCARE
        if "value" in spec:
            try:
                return v == spec["value"]
            except TypeError:
                return REJECT
        return ACCEPT
    if t == "date":
        if not isinstance(v, _dt.date):
            return REJECT
        if type(v) is not _dt.date:
            # a datetime passes the isinstance guard; whether a *bare* date schema should take it is left aside, but a
            # fixed value decides: no datetime equals a date, and a datetime equals a fixed datetime value or it does not
            if "value" in spec and type(v) is _dt.datetime and type(spec["value"]) is _dt.date:
                return REJECT
            return DONTCARE
        return v == spec["value"] if "value" in spec else ACCEPT
    if t == "list":
        if not isinstance(v, list):
            return REJECT
        if type(v) is not list:
            return DONTCARE
        if not _len_ok(spec.get("len"), len(v)):
            return REJECT
        form = spec["form"]
        if form in ("untyped", "ellipsis"):
            return ACCEPT
        if form == "typed":
            return _and(conforms(spec["elem"], x) for x in v)
        el = spec["elems"]
        k = len(el)
        if form == "exact":
            if len(v) != k:
                return REJECT
            return _and(conforms(e, x) for e, x in zip(el, v))
        if len(v) < k:
            return REJECT
        if form == "head":
            return _and(conforms(e, x) for e, x in zip(el, v))
        if form == "tail":
            return _and(conforms(e, x) for e, x in zip(el, v[len(v) - k:]))
        if form == "contains":
            return _or(_and(conforms(e, x) for e, x in zip(el, v[i:i + k]))
                       for i in range(0, len(v) - k + 1))
        raise ValueError(form)
    if t == "dict":
        if not isinstance(v, dict):
            return REJECT
        if type(v) is not dict and type(v).__name__ not in DICT_SUBCLASSES:
            return DONTCARE
        if "entries" not in spec:
            return ACCEPT
        declared = {}
        for e in spec["entries"]:
            declared[e["key"]] = e
        # True/False vs 1/0 (and 1.0) identification of keys is left aside
        for k in v:
            try:
                if k in declared:
                    dk = next(x for x in declared if x == k)
                    if type(dk) is not type(k):
                        return DONTCARE
            except TypeError:
                return DONTCARE
        res = []
        for k, e in declared.items():
            if k in v:
                res.append(conforms(e["spec"], v[k]))
            elif not e["opt"]:
                return REJECT
        if not spec.get("relaxed"):
            for k in v:
                if k not in declared:
                    return REJECT
        return _and(res)
    if t == "any":
        if "alts" not in spec:
            return ACCEPT
        return _or(conforms(a, v) for a in spec["alts"])
    if t in ("alias", "custom"):
        return conforms(spec["spec"], v)
    if t == "or":
        return _or([conforms(spec["a"], v), conforms(spec["b"], v)])
    if t == "add":
        return conforms(merge(spec["a"], spec["b"]), v)
    if t == "required":
        d = spec["d"]
        if "entries" not in d:
            return conforms(d, v)
        keys = spec["keys"]
        ents = [dict(e, opt=(e["opt"] and not (keys is None or e["key"] in keys)))
                for e in d["entries"]]
        return conforms(dict(d, entries=ents), v)
    raise ValueError(f"model: unknown node {t!r}")


def merge(a, b):
    """Meaning of d1 + d2: d1's keys overridden and extended by d2's; relaxed if either is."""
    a, b = resolve_dict(a), resolve_dict(b)
    if "entries" not in a and "entries" not in b:
        return {"t": "dict", "entries": [], "relaxed": False}
    ents = {(type(e["key"]).__name__, e["key"]): e for e in a.get("entries", [])}
    for e in b.get("entries", []):
        ents[(type(e["key"]).__name__, e["key"])] = e
    return {"t": "dict", "entries": list(ents.values()),
            "relaxed": bool(a.get("relaxed") or b.get("relaxed"))}


def resolve_dict(s):
    """Reduce derived dict specs (add / required) to a plain dict spec."""
    if s["t"] == "dict":
        return s
    if s["t"] == "add":
        return merge(s["a"], s["b"])
    if s["t"] == "required":
        d = resolve_dict(s["d"])
        if "entries" not in d:
            return d
        keys = s["keys"]
        return dict(d, entries=[dict(e, opt=(e["opt"] and not (keys is None or e["key"] in keys)))
                                for e in d["entries"]])
    raise ValueError(s["t"])
