"""./check <ID> [--tier quick|thorough] [--replay FILE]

exit 0  property held on everything explored (or only listed known findings were seen)
exit 1  a line ``VIOLATION property=<ID> replay=<path>`` was printed
exit 2  harness error (never reported as a violation)
"""
import argparse
import importlib
import json
import multiprocessing
import os
import signal
import sys
import time
import traceback
import zlib

from . import codec
from .core import Ctx, HarnessError, Violation

HERE = os.path.dirname(os.path.dirname(os.path.abspath(__file__)))
FINDINGS_FILE = os.path.join(HERE, "known-findings.txt")
# where evidence/ and replays/ are written (overridden when checks are run against scratch copies)
OUT = os.environ.get("VERIF_OUT") or HERE


# ------------------------------------------------------------------------------------------
def load_findings(pid):
    """-> (open: {key: text}, fixed: [text])  -- the file is read only, never written."""
    open_, fixed = {}, []
    if not os.path.exists(FINDINGS_FILE):
        return open_, fixed
    for line in open(FINDINGS_FILE, encoding="utf-8"):
        line = line.strip()
        if not line or line.startswith("#"):
            continue
        if f"property={pid} " not in line + " ":
            continue
        if line.startswith("open:"):
            key = None
            for tok in line.split():
                if tok.startswith("key="):
                    key = tok[4:]
            if key:
                open_[key] = line.split(f"key={key}", 1)[1].strip()
        elif line.startswith("fixed:"):
            fixed.append(line)
    return open_, fixed


def load_module(pid):
    return importlib.import_module(f"pbt.props.{pid.lower()}")


def assert_repo(mod):
    if getattr(mod, "NEEDS_D42", True):
        import d42
        root = os.path.realpath(os.environ.get("D42_VERIF_REPO", "/repo"))
        f = os.path.realpath(d42.__file__)
        if not f.startswith(root + os.sep):
            raise HarnessError(f"d42 imported from {f}, expected under {root}")


def derive_seed(pid, seed, shard):
    return (seed * 1000003 + shard * 7919 + zlib.crc32(pid.encode())) % (2 ** 32)


def write_replay(pid, case, key, detail):
    d = os.path.join(OUT, "replays")
    os.makedirs(d, exist_ok=True)
    body = {"property": pid, "key": key, "detail": detail, "case": codec.enc(case)}
    path = os.path.join(d, f"{pid}-{codec.digest(case)}.json")
    with open(path, "w", encoding="utf-8") as fh:
        json.dump(body, fh, indent=1, ensure_ascii=True)
    return path


def run_case(mod, case, ctx):
    """Run one case; returns None or (key, detail)."""
    try:
        mod.check(case, ctx)
    except Violation as v:
        key = v.key
        if hasattr(mod, "classify"):
            key = mod.classify(case, v) or v.key
        return key, v.detail
    return None


class _CaseTimeout(BaseException):
    pass


def _on_alarm(signum, frame):
    raise _CaseTimeout()


# ------------------------------------------------------------------------------------------
def _shard(args):
    """One Hypothesis campaign in one process.  Returns stats + (minimised) failure."""
    pid, tier, seed, shard, n_examples, open_keys, time_cap, shrink_cap = args
    import hypothesis
    from hypothesis import HealthCheck, Phase, given, settings

    mod = load_module(pid)
    ctx = Ctx(tier, shard)
    case_cap = int(getattr(mod, "CASE_SECONDS", 60))
    signal.signal(signal.SIGALRM, _on_alarm)
    state = {"fail": None, "first_fail_t": None, "timed_out": False, "harness": None}
    t0 = time.time()
    strat = mod.strategy(tier)

    def body(case):
        if state["harness"] is not None:
            return
        if state["first_fail_t"] is None:
            if time.time() - t0 > time_cap:
                state["timed_out"] = True
                return
            ctx.evaluations += 1
            ctx.counting = True
        else:
            ctx.counting = False
            if time.time() - state["first_fail_t"] > shrink_cap:
                return
        try:
            signal.alarm(case_cap)           # a single runaway case must not hang the whole campaign
            try:
                res = run_case(mod, case, ctx)
            finally:
                signal.alarm(0)
        except _CaseTimeout:
            state["timed_out"] = True
            ctx.labels["case-time-cap-hit(inconclusive)"] += 1
            if os.environ.get("VERIF_SLOW_LOG"):
                with open(os.environ["VERIF_SLOW_LOG"], "a") as fh:
                    fh.write(codec.dumps(case)[:20000] + "\n")
            return
        except HarnessError as e:
            state["harness"] = f"{e}\n{traceback.format_exc()}"
            return
        except Exception:  # noqa: an exception escaping a check is a bug in the check
            state["harness"] = "unexpected exception inside check on case " + \
                codec.dumps(case)[:3000] + "\n" + traceback.format_exc()
            return
        if res is None:
            return
        key, detail = res
        if key in open_keys:
            ctx.excluded[key] += 1
            return
        if state["first_fail_t"] is None:
            state["first_fail_t"] = time.time()
        state["fail"] = (case, key, detail)
        raise AssertionError(f"{key}: {detail}")

    test = given(strat)(body)
    test = hypothesis.seed(derive_seed(pid, seed, shard))(test)
    test = settings(
        max_examples=n_examples, database=None, deadline=None, derandomize=False,
        report_multiple_bugs=False, print_blob=False,
        phases=[Phase.generate, Phase.shrink],
        suppress_health_check=[HealthCheck.too_slow, HealthCheck.data_too_large,
                               HealthCheck.large_base_example],
    )(test)
    err = None
    try:
        test()
    except AssertionError:
        pass
    except hypothesis.errors.FailedHealthCheck as e:
        err = f"generator health check failed: {e}"
    except hypothesis.errors.Flaky:
        pass  # shrink cap reached: the last recorded failing case is reported
    except BaseException as e:  # noqa
        if state["fail"] is None:
            err = f"hypothesis run failed: {e!r}\n{traceback.format_exc()}"
    if state["harness"]:
        err = state["harness"]
    out = ctx.export()
    out.update({"fail": state["fail"], "timed_out": state["timed_out"], "error": err,
                "wall": time.time() - t0, "shard": shard})
    return out


def _coverage_guided(pid, seed, cfg):
    """atheris drives the property's Hypothesis strategy through fuzz_one_input (pbt/fuzz_hyp.py)."""
    import shutil
    import subprocess
    import tempfile
    try:
        import atheris  # noqa: F401
    except ImportError:
        return {"summary": {"engine": "atheris+hypothesis", "skipped": "atheris not importable"}, "failures": []}
    work = tempfile.mkdtemp(prefix=f"{pid.lower()}cg-")
    try:
        os.makedirs(os.path.join(work, "corpus"))
        res = os.path.join(work, "result.json")
        cmd = [sys.executable, "-W", "ignore", "-m", "pbt.fuzz_hyp", pid, res, os.path.join(work, "corpus"),
               f"-runs={cfg.get('runs', 60000)}", f"-seed={seed + 1}",
               f"-max_total_time={cfg.get('seconds', 120)}", "-max_len=4096", "-print_final_stats=0"]
        p = subprocess.run(cmd, capture_output=True, text=True, timeout=cfg.get("seconds", 120) + 240, cwd=HERE)
        data = json.load(open(res)) if os.path.exists(res) else {"stats": {}, "violation": None}
        summary = {"engine": "atheris+hypothesis (fuzz_one_input)", "exit": p.returncode, **data.get("stats", {})}
        failures = []
        v = data.get("violation")
        if v:
            failures.append((codec.dec(v["case"]), v["key"], v["detail"]))
        return {"summary": summary, "failures": failures}
    finally:
        shutil.rmtree(work, ignore_errors=True)


# ------------------------------------------------------------------------------------------
def main(argv=None):
    ap = argparse.ArgumentParser()
    ap.add_argument("pid")
    ap.add_argument("--tier", default=os.environ.get("VERIF_TIER") or "quick",
                    choices=["quick", "thorough"])
    ap.add_argument("--replay")
    ap.add_argument("--examples", type=int, help="override examples per shard")
    ap.add_argument("--shards", type=int)
    a = ap.parse_args(argv)
    pid = a.pid.upper()
    try:
        seed = int(os.environ.get("VERIF_SEED") or "1")
    except ValueError:
        seed = zlib.crc32(os.environ["VERIF_SEED"].encode())
    t0 = time.time()
    try:
        mod = load_module(pid)
        assert_repo(mod)
        rc = _main(mod, pid, a, seed, t0)
    except HarnessError as e:
        print(f"HARNESS-ERROR property={pid}: {e}")
        rc = 2
    except Exception:
        print(f"HARNESS-ERROR property={pid}: unexpected\n{traceback.format_exc()}")
        rc = 2
    sys.stdout.flush()
    return rc


def _main(mod, pid, a, seed, t0):
    open_f, fixed_f = load_findings(pid)
    ctx = Ctx(a.tier)
    violations = []       # (case, key, detail)
    known_seen = {}

    def handle(case, res, source):
        key, detail = res
        if key in open_f:
            known_seen.setdefault(key, (case, detail))
            ctx.excluded[key] += 1
        else:
            violations.append((case, key, detail, source))

    # ---- replay mode -------------------------------------------------------------------
    if a.replay:
        body = json.load(open(a.replay, encoding="utf-8"))
        case = codec.dec(body["case"])
        res = run_case(mod, case, ctx)
        if res is None:
            print(f"replay {a.replay}: property {pid} holds on this case")
            return 0
        key, detail = res
        if key in open_f:
            print(f"KNOWN-FINDING: property={pid} key={key} {open_f[key]}")
            return 0
        print(f"replay {a.replay}: {key}: {detail}")
        print(f"VIOLATION property={pid} replay={a.replay}")
        return 1

    # ---- A. regression replays ------------------------------------------------------------
    n_reg = 0
    rdir = os.path.join(HERE, "regressions", pid)
    if os.path.isdir(rdir) and not os.environ.get("VERIF_NO_REGRESSIONS"):
        for fn in sorted(os.listdir(rdir)):
            if not fn.endswith(".json"):
                continue
            body = json.load(open(os.path.join(rdir, fn), encoding="utf-8"))
            case = codec.dec(body["case"])
            ctx.evaluations += 1
            n_reg += 1
            res = run_case(mod, case, ctx)
            if res is not None:
                handle(case, res, f"regression {fn}")

    # ---- B. direct reproductions of listed open findings ------------------------------------
    known = getattr(mod, "KNOWN", {})
    for key, text in open_f.items():
        if key not in known:
            raise HarnessError(f"open finding key={key} has no direct reproduction in {mod.__name__}")
        case = known[key]
        ctx.evaluations += 1
        res = run_case(mod, case, ctx)
        if res is not None and res[0] == key:
            known_seen.setdefault(key, (case, res[1]))
        elif res is not None:
            handle(case, res, f"known-finding repro {key}")
        else:
            print(f"note: listed finding key={key} no longer reproduces on this tree")

    # ---- C. exhaustive part ---------------------------------------------------------------------
    exhaustive = False
    n_exh = 0
    if hasattr(mod, "exhaustive"):
        for case in mod.exhaustive(a.tier):
            ctx.evaluations += 1
            n_exh += 1
            res = run_case(mod, case, ctx)
            if res is not None:
                handle(case, res, "exhaustive")
                if len(violations) >= 5:
                    break
        exhaustive = getattr(mod, "EXHAUSTIVE_COMPLETE", False) and not violations

    # ---- D. generated search -----------------------------------------------------------------------
    budget = mod.BUDGET[a.tier]
    n_examples, n_shards = budget[0], budget[1]
    time_cap = budget[2] if len(budget) > 2 else (90 if a.tier == "quick" else 1500)
    if a.examples is not None:
        n_examples = a.examples
    if a.shards is not None:
        n_shards = a.shards
    shrink_cap = 40 if a.tier == "quick" else 180
    results = []
    timed_out = False
    if hasattr(mod, "strategy") and n_examples > 0 and not violations:
        jobs = [(pid, a.tier, seed, s, n_examples, set(open_f), time_cap, shrink_cap)
                for s in range(n_shards)]
        if n_shards == 1:
            results = [_shard(jobs[0])]
        else:
            # watchdog: a shard stuck in uninterruptible C code (a catastrophic regex match inside a
            # generator, say) must not hang the check: after the time cap plus a grace period the pool is
            # torn down and the run is reported as inconclusive (never as a violation)
            mp = multiprocessing.get_context("fork")
            pool = mp.Pool(min(n_shards, os.cpu_count() or 1))
            deadline = time.time() + 2 * time_cap + 2 * shrink_cap + 60
            try:
                it = pool.imap_unordered(_shard, jobs, chunksize=1)
                for _ in jobs:
                    try:
                        results.append(it.next(timeout=max(1.0, deadline - time.time())))
                    except multiprocessing.TimeoutError:
                        timed_out = True
                        print(f"note: {len(jobs) - len(results)} shard(s) did not finish within the watchdog "
                              f"limit and were abandoned (inconclusive, not a violation)")
                        break
            finally:
                pool.terminate()
                pool.join()
        for r in results:
            if r["error"]:
                raise HarnessError(f"shard {r['shard']}: {r['error']}")
        for r in results:
            ctx.evaluations += r["evaluations"]
            ctx.labels.update(r["labels"])
            ctx.nontrivial |= r["nontrivial"]
            for k, v in r["excluded"].items():
                ctx.excluded[k] += v
            for s in r["samples"]:
                if len(ctx.samples) < Ctx.MAX_SAMPLES:
                    ctx.samples.append(s)
            timed_out = timed_out or r["timed_out"]
            if r["fail"]:
                case, key, detail = r["fail"]
                violations.append((case, key, detail, f"generated (shard {r['shard']})"))

    # ---- E. extra engine (e.g. atheris campaign) -----------------------------------------------------
    extra = None
    if hasattr(mod, "extra_engine") and not violations:
        extra = mod.extra_engine(a.tier, seed, ctx)
        for case, key, detail in (extra or {}).pop("failures", []):
            if key in open_f:
                ctx.excluded[key] += 1
            else:
                violations.append((case, key, detail, "extra engine"))

    # ---- F. coverage-guided campaign over the same strategy (thorough tier, selected properties) ---------
    cg = getattr(mod, "COVERAGE_GUIDED", None)
    if cg and a.tier == "thorough" and not violations:
        res = _coverage_guided(pid, seed, cg)
        extra = dict(extra or {}, coverage_guided=res["summary"])
        ctx.evaluations += res["summary"].get("valid", 0)
        for case, key, detail in res["failures"]:
            if key in open_f:
                ctx.excluded[key] += 1
            else:
                violations.append((case, key, detail, "coverage-guided (atheris over the Hypothesis strategy)"))

    # ---- coverage expectations ----------------------------------------------------------------------------
    if not violations and ctx.labels.get("skip:undeclarable-spec", 0) > 0.1 * max(1, ctx.evaluations):
        raise HarnessError(f"{ctx.labels['skip:undeclarable-spec']} of {ctx.evaluations} generated specs were "
                           f"refused by the DSL: the spec generator no longer matches the declaration rules")
    if hasattr(mod, "require") and not violations and not timed_out:
        mod.require(ctx, a.tier)

    # ---- report ---------------------------------------------------------------------------------------------
    for key, (case, detail) in known_seen.items():
        print(f"KNOWN-FINDING: property={pid} key={key} {open_f[key]}")
    seen_keys = set()
    replay_paths = []
    for case, key, detail, source in violations:
        path = write_replay(pid, case, key, detail)
        replay_paths.append(path)
        if key not in seen_keys:
            print(f"violation[{source}] {key}: {detail}")
            print(f"  case: {codec.dumps(case)[:1500]}")
        seen_keys.add(key)
        print(f"VIOLATION property={pid} replay={path}")

    samples = ctx.samples[:Ctx.MAX_SAMPLES]
    coverage = {
        "evaluations": ctx.evaluations,
        "distinct_nontrivial": len(ctx.nontrivial),
        "rule": mod.RULE,
        "samples": samples,
        "labels": dict(sorted(ctx.labels.items())),
        "regressions_replayed": n_reg,
        "exhaustive_cases": n_exh,
        "exhaustive": bool(exhaustive),
        "shards": n_shards if results else 0,
        "examples_per_shard": n_examples if results else 0,
        "excluded_known_findings": dict(ctx.excluded),
        "inconclusive_time_cap_hit": bool(timed_out),
    }
    if extra:
        coverage["extra_engine"] = extra
    ev = {
        "property_id": pid, "tier": a.tier, "seed": seed,
        "level": getattr(mod, "LEVEL", "exploration"),
        "coverage": coverage,
        "assumptions": list(getattr(mod, "ASSUMPTIONS", [])),
        "wall_s": round(time.time() - t0, 3),
        "violations": len(violations),
    }
    os.makedirs(os.path.join(OUT, "evidence"), exist_ok=True)
    with open(os.path.join(OUT, "evidence", f"{pid}.json"), "w", encoding="utf-8") as fh:
        json.dump(ev, fh, indent=1, ensure_ascii=True)
    print(f"{pid} tier={a.tier} seed={seed} evaluations={ctx.evaluations} "
          f"distinct_nontrivial={len(ctx.nontrivial)} violations={len(violations)} "
          f"known={sorted(known_seen)} wall={ev['wall_s']}s"
          + (" INCONCLUSIVE(time cap)" if timed_out else ""))
    return 1 if violations else 0


if __name__ == "__main__":
    sys.exit(main())
