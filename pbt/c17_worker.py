"""Persistent worker for C17: one interpreter with its own PYTHONHASHSEED.

stdin : one JSON object per line   {"seed": <codec>, "specs": [<codec SchemaSpec>...]}
stdout: one JSON object per line   {"out": [<codec value>...]} | {"error": "..."}
"""
import json
import sys


def main():
    from pbt import codec, specs
    from d42 import fake
    from d42.generation import Random
    sys.stdout.write(json.dumps({"ready": True, "hashseed": __import__("os").environ.get("PYTHONHASHSEED")}) + "\n")
    sys.stdout.flush()
    for line in sys.stdin:
        line = line.strip()
        if not line:
            continue
        try:
            req = codec.dec(json.loads(line))
            schemas = [specs.build(s) for s in req["specs"]]
            Random().set_seed(req["seed"])
            out = []
            for s in schemas:
                try:
                    out.append(codec.enc(fake(s)))
                except Exception as e:  # noqa
                    out.append({"$raised": type(e).__name__})
            resp = {"out": out}
        except Exception as e:  # noqa
            resp = {"error": repr(e)}
        sys.stdout.write(json.dumps(resp) + "\n")
        sys.stdout.flush()


if __name__ == "__main__":
    main()
