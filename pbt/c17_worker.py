"""Persistent worker for C17: one interpreter with its own PYTHONHASHSEED.

stdin : one JSON object per line   {"seed": <codec>, "specs": [<codec SchemaSpec>...]}
stdout: one JSON object per line   {"out": [<codec value>...]} | {"error": "..."}

Options (argv):
  --fork         every request is served by a forked child that exits afterwards: the interpreter that generates has
                 never generated anything before (the other workers accumulate the history of all earlier requests)
  --prehistory   before serving, the interpreter generates from a number of schemas, several of which fail below
                 containers or hold repeat counts above the generator's limit
  --warp-clock   every clock of the time module jumps ahead by 7 s per reading (a very slow / busy machine)
"""
import json
import os
import sys


def _warp_clock():
    import time
    state = {"t": 1_700_000_000.0}

    def tick():
        state["t"] += 7.0
        return state["t"]
    for name in ("time", "monotonic", "perf_counter", "process_time", "thread_time"):
        if hasattr(time, name):
            setattr(time, name, tick)
    for name in ("time_ns", "monotonic_ns", "perf_counter_ns", "process_time_ns"):
        if hasattr(time, name):
            setattr(time, name, lambda: int(tick() * 1e9))


def _prehistory():
    from d42 import fake, schema
    from . import panel
    for kind in range(7):
        for depth in (6, 5, 2):
            try:
                panel.failing(kind, depth)
            except Exception:  # noqa
                pass
    for p in ("x{40,}", "(?:ab){64,}", "[ab]{33,}?z*", "\\d{44}"):
        fake(schema.str.regex(p))
    panel.run(seed=5)


def _random_methods():
    """one call of every public method of d42.generation.Random (custom types draw through them)"""
    from d42.generation import Random
    r = Random()
    items = list(range(12))
    r.shuffle_list(items)
    return [r.random_int(-5, 10 ** 6), r.random_float(-1.0, 1.0), r.random_float(0.0, 9.0, 2), r.random_str(6, "abcdef01"),
            r.random_choice(["x", "y", "z", "w"]), items, r.random_int(0, 1)]


def _serve_one(line):
    from pbt import codec, specs
    from d42 import fake
    from d42.generation import Random
    try:
        req = codec.dec(json.loads(line))
        schemas = [specs.build(s) for s in req["specs"]]
        Random().set_seed(req["seed"])
        out = []
        for s in schemas:
            try:
                out.append(codec.enc(fake(s)))
            except Exception as e:  # noqa
                out.append({"$raised": type(e).__name__})
        out.append(codec.enc(_random_methods()))
        return {"out": out}
    except Exception as e:  # noqa
        return {"error": repr(e)}


def main():
    opts = set(sys.argv[1:])
    if "--warp-clock" in opts:
        _warp_clock()           # before d42 is imported (from time import ... would bind the real clock)
    from pbt import codec, specs  # noqa: F401
    import d42  # noqa: F401
    from d42 import fake  # noqa: F401
    if "--prehistory" in opts:
        _prehistory()
    sys.stdout.write(json.dumps({"ready": True, "hashseed": os.environ.get("PYTHONHASHSEED")}) + "\n")
    sys.stdout.flush()
    for line in sys.stdin:
        line = line.strip()
        if not line:
            continue
        if "--fork" in opts:
            r, w = os.pipe()
            pid = os.fork()
            if pid == 0:
                os.close(r)
                os.write(w, (json.dumps(_serve_one(line)) + "\n").encode())
                os._exit(0)
            os.close(w)
            chunks = []
            while True:
                b = os.read(r, 65536)
                if not b:
                    break
                chunks.append(b)
            os.close(r)
            os.waitpid(pid, 0)
            text = b"".join(chunks).decode() or json.dumps({"error": "child died"}) + "\n"
            sys.stdout.write(text)
        else:
            sys.stdout.write(json.dumps(_serve_one(line)) + "\n")
        sys.stdout.flush()


if __name__ == "__main__":
    main()
