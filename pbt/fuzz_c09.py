"""atheris (libFuzzer) campaign for C09 over raw pattern text.

Run by pbt.props.c09.extra_engine in the thorough tier:
    python -m pbt.fuzz_c09 <out.json> <corpus_dir> -runs=N -seed=S -max_total_time=T

The semantic oracle is inside the target: the pattern is classified over its sre parse tree
(only supported opcodes => the generated string must fully match; a listed unsupported opcode =>
match or raise; anything else => skipped and counted).  A violation is written to <out.json> and
the process exits; libFuzzer's own crash artefacts are not used.
"""
import json
import os
import re
import sys

import atheris

with atheris.instrument_imports(include=["d42.generation"]):
    import d42.generation  # noqa: F401
    from d42.generation import Random, RegexGenerator

if sys.version_info >= (3, 11):
    import re._constants as sc
    import re._parser as sre
else:
    import sre_constants as sc
    import sre_parse as sre

import random as _random

SUPPORTED = {sc.LITERAL, sc.NOT_LITERAL, sc.ANY, sc.IN, sc.SUBPATTERN, sc.BRANCH, sc.MAX_REPEAT,
             sc.MIN_REPEAT, sc.AT}
UNSUPPORTED = {sc.ASSERT, sc.ASSERT_NOT, sc.GROUPREF}
for _n in ("ATOMIC_GROUP", "POSSESSIVE_REPEAT"):
    if hasattr(sc, _n):
        UNSUPPORTED.add(getattr(sc, _n))
PRINTABLE = set(range(0x20, 0x7f))
STATS = {"execs": 0, "supported": 0, "unsupported": 0, "skipped": 0, "invalid": 0, "refused": 0}
OUT = [None]


class Skip(Exception):
    pass


def _class_members(items):
    """code points matched by a (non-negated) class body, restricted to printable ASCII; raises Skip
    for things outside the supported grammar; returns (members, has_unsupported_category)"""
    members, unsup = set(), False
    for op, val in items:
        if op == sc.LITERAL:
            members.add(val)
        elif op == sc.RANGE:
            lo, hi = val
            members.update(c for c in PRINTABLE if lo <= c <= hi)
        elif op == sc.CATEGORY:
            if val == sc.CATEGORY_DIGIT:
                members.update(range(0x30, 0x3a))
            elif val == sc.CATEGORY_WORD:
                members.update(c for c in PRINTABLE if chr(c).isalnum() or c == 0x5f)
            else:
                unsup = True
        else:
            raise Skip()
    return members, unsup


def classify(parsed, top=True, depth=0):
    """-> 'supported' | 'unsupported'; raises Skip for constructs the property does not speak about."""
    kind = "supported"
    n = len(parsed)
    for i, (op, val) in enumerate(parsed):
        if op in UNSUPPORTED:
            kind = "unsupported"
            continue
        if op not in SUPPORTED:
            raise Skip()
        if op == sc.AT:
            if not top or not ((val == sc.AT_BEGINNING and i == 0) or (val == sc.AT_END and i == n - 1)):
                raise Skip()
        elif op == sc.IN:
            items = list(val)
            neg = bool(items) and items[0][0] == sc.NEGATE
            if neg:
                items = items[1:]
            members, unsup = _class_members(items)
            if unsup:
                kind = "unsupported"
            elif neg and not (PRINTABLE - members):
                raise Skip()        # nothing printable is left: the generator's alphabet cannot serve it
        elif op == sc.NOT_LITERAL:
            pass
        elif op == sc.SUBPATTERN:
            group, add_flags, del_flags, sub = val
            if add_flags or del_flags:
                raise Skip()
            if classify(sub, False, depth + 1) == "unsupported":
                kind = "unsupported"
        elif op == sc.BRANCH:
            for alt in val[1]:
                if classify(alt, False, depth + 1) == "unsupported":
                    kind = "unsupported"
        elif op in (sc.MAX_REPEAT, sc.MIN_REPEAT):
            lo, hi, sub = val
            if lo > 40 or (hi != sc.MAXREPEAT and hi > 64) or depth >= 3:
                raise Skip()
            if classify(sub, False, depth + 1) == "unsupported":
                kind = "unsupported"
    return kind


def qdepth(parsed):
    """nesting depth of quantifiers"""
    best = 0
    for op, val in parsed:
        if op in (sc.MAX_REPEAT, sc.MIN_REPEAT):
            best = max(best, 1 + qdepth(val[2]))
        elif op == sc.SUBPATTERN:
            best = max(best, qdepth(val[3]))
        elif op == sc.BRANCH:
            best = max([best] + [qdepth(alt) for alt in val[1]])
    return best


def _finish(violation=None):
    if OUT[0]:
        with open(OUT[0], "w", encoding="utf-8") as fh:
            json.dump({"stats": STATS, "violation": violation}, fh)


def TestOneInput(data):
    STATS["execs"] += 1
    if STATS["execs"] % 2000 == 0:
        _finish()       # libFuzzer ends the process with _exit: keep the counters on disk
    fdp = atheris.FuzzedDataProvider(data)
    max_repeat = (0, 1, 3, 32)[fdp.ConsumeIntInRange(0, 3)]
    seed = fdp.ConsumeIntInRange(0, 255)
    pattern = fdp.ConsumeUnicodeNoSurrogates(64)
    try:
        parsed = sre.parse(pattern)
        re.compile(pattern)
    except Exception:  # noqa: not a valid pattern
        STATS["invalid"] += 1
        return
    if parsed.state.flags & ~sc.SRE_FLAG_UNICODE:
        STATS["skipped"] += 1
        return
    try:
        kind = classify(parsed)
    except Skip:
        STATS["skipped"] += 1
        return
    STATS[kind] += 1
    state = _random.getstate()
    _random.seed(seed)
    try:
        try:
            s = RegexGenerator(Random(), max_repeat=max_repeat).generate(pattern)
        except Exception as e:  # noqa
            if kind == "unsupported":
                STATS["refused"] += 1
                return
            _finish({"key": "supported-raises", "pattern": pattern, "max_repeat": max_repeat, "seed": seed,
                     "detail": f"generate({pattern!r}) raised {e!r}"})
            os._exit(77)
    finally:
        _random.setstate(state)
    if len(s) > 20000:
        return
    if qdepth(parsed) >= 2 and len(s) > 12:
        # a match inside the C engine cannot be interrupted: nested quantifiers are matched in a child that can be killed
        from . import safematch
        ok = safematch.fullmatch(pattern, s, 3.0)
        if ok is None:
            STATS["inconclusive"] = STATS.get("inconclusive", 0) + 1
            return
    else:
        ok = re.fullmatch(pattern, s) is not None
    if not ok:
        _finish({"key": "nonmatch" if kind == "supported" else "unsupported-nonmatch", "pattern": pattern,
                 "max_repeat": max_repeat, "seed": seed,
                 "detail": f"generate({pattern!r}, max_repeat={max_repeat}) = {s!r} does not fully match"})
        os._exit(77)


def main():
    OUT[0] = sys.argv[1]
    argv = [sys.argv[0]] + sys.argv[2:]
    import atexit
    atexit.register(_finish)
    atheris.Setup(argv, TestOneInput)
    try:
        atheris.Fuzz()
    finally:
        _finish()


if __name__ == "__main__":
    main()
