"""Scripted stand-in for the stdlib ``random`` module as seen by d42/generation/_random.py.

All value-affecting randomness of d42 flows through the module-level name ``random`` in
``d42.generation._random`` (randint / uniform / choice / shuffle / seed).  For the duration of a
case that one name is replaced by an object answering from a *script*: a list of selectors
f in [0, 1] chosen by Hypothesis (0.0 = the lowest outcome of the draw, 1.0 = the highest), so
that the RNG "schedule" is part of the test case, shrinks with it and is stored in the replay
file.  d42's own Random.random_float / random_str / Generator / RegexGenerator run unmodified.

When the script is exhausted a deterministic low-discrepancy sequence continues it.
Failure behaviour mirrors the stdlib: randint(a, b) with a > b and choice(()) raise.
"""
import contextlib
import sys

from hypothesis import strategies as st

__all__ = ("ScriptedRandom", "scripted", "script_strategy", "seeded")

_GOLD = 0.6180339887498949


class ScriptedRandom:
    def __init__(self, script):
        self.script = list(script)
        self.i = 0
        self.draws = 0
        self.extremes = 0
        self.log = []

    def _next(self):
        if self.i < len(self.script):
            f = self.script[self.i]
        else:
            f = ((self.i + 1) * _GOLD) % 1.0
        self.i += 1
        self.draws += 1
        if f in (0.0, 1.0):
            self.extremes += 1
        return f

    # -- the part of the random-module API that d42 uses ------------------------------------
    def seed(self, *a, **k):
        return None

    def randint(self, a, b):
        if not (isinstance(a, int) and isinstance(b, int)):
            raise TypeError("scripted randint: non-integer arguments")
        if a > b:
            raise ValueError(f"empty range in randrange({a}, {b + 1})")
        f = self._next()
        n = b - a + 1
        if f >= 1.0:
            return b
        k = (int(f * (1 << 53)) * n) >> 53
        return a + min(k, n - 1)

    def uniform(self, a, b):
        # exactly the stdlib formula a + (b - a) * random(), random() in [0, 1): the highest
        # outcome of the draw is random() == 1 - 2**-53, never 1.0
        f = min(self._next(), 1.0 - 2 ** -53)
        return a + (b - a) * f

    def choice(self, seq):
        if not len(seq):
            raise IndexError("Cannot choose from an empty sequence")
        f = self._next()
        return seq[min(len(seq) - 1, int(f * len(seq)))]

    def shuffle(self, x):
        for i in reversed(range(1, len(x))):
            j = self.randint(0, i)
            x[i], x[j] = x[j], x[i]

    def random(self):
        return min(self._next(), 1.0 - 2 ** -53)


def _mod():
    import d42.generation  # noqa: F401  (the package attribute _random is the Random() singleton)
    return sys.modules["d42.generation._random"]


@contextlib.contextmanager
def scripted(script):
    m = _mod()
    real = m.random
    fake = ScriptedRandom(script)
    m.random = fake
    try:
        yield fake
    finally:
        m.random = real


@contextlib.contextmanager
def seeded(k):
    """Real stdlib RNG, seeded through d42's own API; state restored afterwards."""
    import random as _r
    from d42.generation import Random
    state = _r.getstate()
    Random().set_seed(k)
    try:
        yield
    finally:
        _r.setstate(state)


def script_strategy(max_size=40):
    sel = st.one_of(st.just(0.0), st.just(1.0),
                    st.floats(0.0, 1.0, allow_nan=False, width=64))
    return st.lists(sel, min_size=0, max_size=max_size)
