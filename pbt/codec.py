"""Tagged JSON codec for cases (recipes).

A case is a plain Python structure: dict / list / tuple / set / frozenset / scalars / bytes /
UUID / datetime / date / Ellipsis / Zoo markers.  ``dumps`` gives a canonical text that is
used (a) as the replay file body, (b) as the identity of a case when counting distinct cases,
(c) verbatim in evidence samples.  ``loads`` is its inverse, so a replay bypasses Hypothesis.
"""
import datetime as _dt
import hashlib
import json
import math
import uuid

__all__ = ("Zoo", "Wrapped", "enc", "dec", "dumps", "loads", "digest")


class Zoo:
    """Marker for a hostile-zoo object; resolved to a *fresh* object by pbt.values.realize."""
    __slots__ = ("name",)

    def __init__(self, name):
        self.name = name

    def __repr__(self):
        return f"Zoo({self.name!r})"

    def __eq__(self, other):
        return isinstance(other, Zoo) and other.name == self.name

    def __hash__(self):
        return hash(("Zoo", self.name))


class Wrapped:
    """Marker for an instance of a plain subclass of a built-in with given content, e.g.
    Wrapped("defaultdict", {"a": 1}); resolved to a fresh object by pbt.values.realize."""
    __slots__ = ("kind", "value")

    def __init__(self, kind, value):
        self.kind = kind
        self.value = value

    def __repr__(self):
        return f"Wrapped({self.kind!r}, {self.value!r})"

    def __eq__(self, other):
        return isinstance(other, Wrapped) and (other.kind, other.value) == (self.kind, self.value)

    def __hash__(self):
        return hash(("Wrapped", self.kind))


def _has_surrogate(s):
    return any(0xD800 <= ord(c) <= 0xDFFF for c in s)


_HUGE = 10 ** 4000


def enc(o):
    if isinstance(o, str) and _has_surrogate(o):
        # JSON would merge an adjacent high+low pair of *lone* surrogates into one astral character
        return {"$str": [ord(c) for c in o]}
    if o is None or isinstance(o, (bool, str)):
        return o
    if isinstance(o, int):
        if abs(o) >= 2 ** 53:
            # (CPython refuses decimal text for ints of more than 4300 digits: those travel in hex)
            return {"$int": str(o) if -_HUGE < o < _HUGE else hex(o)}
        return o
    if isinstance(o, float):
        if math.isnan(o):
            return {"$float": "nan"}
        if math.isinf(o):
            return {"$float": "inf" if o > 0 else "-inf"}
        if o == 0.0 and math.copysign(1.0, o) < 0:
            return {"$float": "-0.0"}
        return o
    if o is Ellipsis:
        return {"$": "..."}
    if isinstance(o, Zoo):
        return {"$zoo": o.name}
    if isinstance(o, Wrapped):
        return {"$wrapped": o.kind, "value": enc(o.value)}
    if isinstance(o, bytes):
        return {"$bytes": o.hex()}
    if isinstance(o, uuid.UUID):
        return {"$uuid": str(o)}
    if isinstance(o, _dt.datetime):
        tz = None
        if o.tzinfo is not None:
            tz = int(o.utcoffset().total_seconds())
        return {"$datetime": o.replace(tzinfo=None).isoformat(), "tz": tz, "fold": o.fold}
    if isinstance(o, _dt.date):
        return {"$date": o.isoformat()}
    if isinstance(o, list):
        return [enc(x) for x in o]
    if isinstance(o, tuple):
        return {"$tuple": [enc(x) for x in o]}
    if isinstance(o, frozenset):
        return {"$frozenset": sorted((enc(x) for x in o), key=lambda e: json.dumps(e, sort_keys=True))}
    if isinstance(o, set):
        return {"$set": sorted((enc(x) for x in o), key=lambda e: json.dumps(e, sort_keys=True))}
    if isinstance(o, dict):
        if all(isinstance(k, str) and not k.startswith("$") and not _has_surrogate(k) for k in o):
            return {k: enc(v) for k, v in o.items()}
        return {"$dict": [[enc(k), enc(v)] for k, v in o.items()]}
    raise TypeError(f"codec: cannot encode {type(o)!r}: {o!r}")


def dec(e):
    if e is None or isinstance(e, (bool, str, int)):
        return e
    if isinstance(e, float):
        return e
    if isinstance(e, list):
        return [dec(x) for x in e]
    if isinstance(e, dict):
        if "$str" in e:
            return "".join(chr(c) for c in e["$str"])
        if "$int" in e:
            return int(e["$int"], 0)
        if "$float" in e:
            s = e["$float"]
            if s in ("nan", "inf", "-inf", "-0.0"):
                return float(s)
            return float.fromhex(s)
        if "$" in e:
            return Ellipsis
        if "$zoo" in e:
            return Zoo(e["$zoo"])
        if "$wrapped" in e:
            return Wrapped(e["$wrapped"], dec(e["value"]))
        if "$bytes" in e:
            return bytes.fromhex(e["$bytes"])
        if "$uuid" in e:
            return uuid.UUID(e["$uuid"])
        if "$datetime" in e:
            d = _dt.datetime.fromisoformat(e["$datetime"])
            if e.get("tz") is not None:
                d = d.replace(tzinfo=_dt.timezone(_dt.timedelta(seconds=e["tz"])))
            return d.replace(fold=e.get("fold", 0))
        if "$date" in e:
            return _dt.date.fromisoformat(e["$date"])
        if "$tuple" in e:
            return tuple(dec(x) for x in e["$tuple"])
        if "$frozenset" in e:
            return frozenset(dec(x) for x in e["$frozenset"])
        if "$set" in e:
            return set(dec(x) for x in e["$set"])
        if "$dict" in e:
            return {dec(k): dec(v) for k, v in e["$dict"]}
        return {k: dec(v) for k, v in e.items()}
    raise TypeError(f"codec: cannot decode {e!r}")


def dumps(case, **kw):
    return json.dumps(enc(case), ensure_ascii=True, **kw)


def loads(text):
    return dec(json.loads(text))


def digest(case):
    return hashlib.blake2b(dumps(case).encode(), digest_size=12).hexdigest()
