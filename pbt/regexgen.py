"""Pattern recipes for the regular-expression grammar named in C09, and their rendering.

node :=  ["lit", ch] | ["esc", text] | ["any"] | ["d"] | ["w"]
      |  ["cls", negated, [item...]]      item := ["c", ch] | ["r", lo, hi] | ["d"] | ["w"]
                                                 | ["S", esc]   (unsupported category, e.g. \\s)
      |  ["grp", kind, node]              kind := "cap" | "non" | "named"
      |  ["alt", [node...]]  |  ["seq", [node...]]
      |  ["rep", node, q, lazy]           q := "*" | "+" | "?" | ["n", n] | ["n,", n] | ["n,m", n, m]
      |  ["unsup", kind]                  one of the constructs the generator must refuse
pattern := {"body": node, "bol": bool, "eol": bool}
"""
import re

from hypothesis import strategies as st

LIT_CHARS = "abcXYZ019 _-.*+?()[]{}|^$\\/#'\"é߀"
CLASS_CHARS = "abcxyzABC0159_-]^\\. é"
ESCAPES = [r"\.", r"\\", r"\n", r"\t", r"\-", r"\$", r"\*", r"\(", r"\[", r"\/", r"\"", r"\ "]
# (ranges reaching the last printable character '~' or running past it included; a negated class built
# from them still leaves ' ' or '!' in the generator's alphabet, so its complement is never empty)
RANGES = [("a", "f"), ("a", "z"), ("A", "Z"), ("0", "9"), ("0", "5"), ("x", "z"), ("α", "ω"),
          ("a", "a"), ("!", "~"), ("a", "~"), ("#", "\uffff"), ("{", "~"), ("\"", "}"),
          ("\ud800", "\udbff"), ("\udc00", "\udfff"), ("\ud900", "\ue100")]
UNSUPPORTED = ["lookahead", "neg-lookahead", "lookbehind", "neg-lookbehind", "backref",
               r"\s", r"\S", r"\D", r"\W", "atomic", "possessive*", "possessive+", "possessive?",
               r"[\s]", r"[^\D]", r"[\W]"]


# ---------------------------------------------------------------------------------------------
def _atoms():
    cls_item = st.one_of(
        st.sampled_from(CLASS_CHARS).map(lambda c: ["c", c]),
        st.sampled_from(RANGES).map(lambda r: ["r", r[0], r[1]]),
        st.just(["d"]), st.just(["w"]),
    )
    return st.one_of(
        st.sampled_from(LIT_CHARS).map(lambda c: ["lit", c]),
        st.sampled_from(LIT_CHARS).map(lambda c: ["lit", c]),
        st.sampled_from(ESCAPES).map(lambda e: ["esc", e]),
        st.just(["any"]), st.just(["d"]), st.just(["w"]),
        st.tuples(st.booleans(), st.lists(cls_item, min_size=1, max_size=4)).map(
            lambda t: ["cls", t[0] and _complement_nonempty(t[1]), t[1]]),
    )


def _complement_nonempty(items):
    """does a negated class with these items leave at least one printable ASCII character (the
    generator's alphabet)?  Classes that do not are outside C09's domain and are built non-negated."""
    covered = set()
    for it in items:
        if it[0] == "c":
            covered.add(ord(it[1]))
        elif it[0] == "r":
            covered.update(range(ord(it[1]), min(ord(it[2]), 0x7e) + 1))
        elif it[0] == "d":
            covered.update(range(0x30, 0x3a))
        elif it[0] == "w":
            covered.update(c for c in range(0x20, 0x7f) if chr(c).isalnum() or c == 0x5f)
    return any(c not in covered for c in range(0x20, 0x7f))


BIG_COUNTS = [31, 32, 33, 40, 43, 44, 45, 63, 64, 65]      # around max_repeat (32), its double, and sre's MAX_REPEAT opcode


def has_big(node):
    k = node[0]
    if k == "rep":
        q = node[2]
        return (isinstance(q, list) and max(q[1:]) > 8) or has_big(node[1])
    if k == "grp":
        return has_big(node[2])
    if k in ("alt", "seq"):
        return any(has_big(n) for n in node[1])
    return False


def _quant(bounded_only, big_ok=False):
    small = st.integers(0, 4)
    opts = [st.just("?"), small.map(lambda n: ["n", n]),
            st.tuples(small, st.integers(0, 4)).map(lambda t: ["n,m", t[0], t[0] + t[1]])] * 2
    if big_ok:
        # explicit counts above the generator's limit for open-ended quantifiers
        big = st.sampled_from(BIG_COUNTS)
        opts += [big.map(lambda n: ["n", n]),
                 st.tuples(st.one_of(small, big), big).map(lambda t: ["n,m", min(t), max(t)])]
    if not bounded_only:
        opts += [st.just("*"), st.just("+"),
                 st.one_of(small, st.sampled_from([31, 32, 33, 40])).map(lambda n: ["n,", n])]
    return st.one_of(*opts)


def has_unbounded(node):
    k = node[0]
    if k == "rep":
        q = node[2]
        if q in ("*", "+") or (isinstance(q, list) and q[0] == "n,"):
            return True
        return has_unbounded(node[1])
    if k == "grp":
        return has_unbounded(node[2])
    if k in ("alt", "seq"):
        return any(has_unbounded(n) for n in node[1])
    return False


def rep_depth(node):
    k = node[0]
    if k == "rep":
        return 1 + rep_depth(node[1])
    if k == "grp":
        return rep_depth(node[2])
    if k in ("alt", "seq"):
        return max([rep_depth(n) for n in node[1]] + [0])
    return 0


@st.composite
def node_strategy(draw, depth, allow_unsup=False):
    if depth <= 0:
        return draw(_atoms())
    kind = draw(st.sampled_from(["atom", "atom", "grp", "alt", "seq", "seq", "rep", "rep"]))
    if kind == "atom":
        return draw(_atoms())
    if kind == "grp":
        return ["grp", draw(st.sampled_from(["cap", "non", "named"])),
                draw(node_strategy(depth - 1))]
    if kind == "alt":
        return ["alt", draw(st.lists(node_strategy(depth - 1), min_size=2, max_size=3))]
    if kind == "seq":
        return ["seq", draw(st.lists(node_strategy(depth - 1), min_size=1, max_size=4))]
    inner = draw(node_strategy(depth - 1))
    bounded_only = has_unbounded(inner) or rep_depth(inner) >= 2
    return ["rep", inner, draw(_quant(bounded_only, big_ok=not has_big(inner))), draw(st.booleans())]


def count_reps(node):
    """number of quantifiers of any kind"""
    k = node[0]
    if k == "rep":
        return 1 + count_reps(node[1])
    if k == "grp":
        return count_reps(node[2])
    if k in ("alt", "seq"):
        return sum(count_reps(n) for n in node[1])
    return 0


def count_unbounded(node):
    k = node[0]
    if k == "rep":
        q = node[2]
        own = 1 if (q in ("*", "+") or (isinstance(q, list) and q[0] == "n,")) else 0
        return own + count_unbounded(node[1])
    if k == "grp":
        return count_unbounded(node[2])
    if k in ("alt", "seq"):
        return sum(count_unbounded(n) for n in node[1])
    return 0


def var_rep_depth(node):
    """nesting depth counting only quantifiers with a variable count"""
    k = node[0]
    if k == "rep":
        q = node[2]
        own = 0 if (isinstance(q, list) and q[0] == "n") else 1
        return own + var_rep_depth(node[1])
    if k == "grp":
        return var_rep_depth(node[2])
    if k in ("alt", "seq"):
        return max([var_rep_depth(n) for n in node[1]] + [0])
    return 0


def var_inside_rep(node, inside=False):
    """is there a quantifier with a variable count inside another quantifier (of any kind)?  `(?:a{0,64}){44}` makes the
    matcher enumerate the ways of cutting a run of a's into 44 pieces"""
    k = node[0]
    if k == "rep":
        q = node[2]
        variable = not (isinstance(q, list) and q[0] == "n")
        if inside and variable:
            return True
        return var_inside_rep(node[1], True)
    if k == "grp":
        return var_inside_rep(node[2], inside)
    if k in ("alt", "seq"):
        return any(var_inside_rep(n, inside) for n in node[1])
    return False


def alt_inside_rep(node, inside=False):
    """an alternation inside a quantifier: overlapping alternatives (`(?:\\d|\\d){32,}a`) double the work per repetition"""
    k = node[0]
    if k == "rep":
        q = node[2]
        small = q == "?" or (isinstance(q, list) and q[0] in ("n", "n,m") and max(q[1:]) <= 3)
        return alt_inside_rep(node[1], inside or not small)
    if k == "grp":
        return alt_inside_rep(node[2], inside)
    if k == "alt":
        return inside or any(alt_inside_rep(n, inside) for n in node[1])
    if k == "seq":
        return any(alt_inside_rep(n, inside) for n in node[1])
    return False


def is_cheap_to_match(node):
    """no variable quantifier inside another quantifier (a fixed count `{n}` may sit inside one) and at most two
    open-ended quantifiers: matching (also *failing* to match, which is what re.search / Hypothesis' from_regex
    do a lot) stays polynomial with a small degree"""
    return rep_depth(node) <= 2 and not var_inside_rep(node) and count_unbounded(node) <= 2 and not alt_inside_rep(node)


@st.composite
def cheap_pattern_strategy(draw, max_depth=2):
    """patterns for str nodes of schemas (every check except C09, which owns the full grammar)"""
    p = draw(pattern_strategy(max_depth))
    if not is_cheap_to_match(p["body"]):
        p = dict(p, body=["seq", [draw(_atoms()), ["rep", draw(_atoms()), draw(_quant(True)), False]]])
    return p


def limit_unbounded(node, budget):
    """keep the first budget[0] open-ended quantifiers (reading order), turn the others into bounded ones:
    many adjacent open-ended quantifiers make a (failing or lazy) match polynomial of a high degree,
    and a match inside the C engine cannot be interrupted"""
    k = node[0]
    if k == "rep":
        inner = limit_unbounded(node[1], budget)
        q = node[2]
        if q in ("*", "+") or (isinstance(q, list) and q[0] == "n,"):
            if budget[0] > 0:
                budget[0] -= 1
            else:
                q = {"*": ["n,m", 0, 3], "+": ["n,m", 1, 3]}.get(q) if isinstance(q, str) else ["n", min(q[1], 4)]
        return ["rep", inner, q, node[3]]
    if k == "grp":
        return ["grp", node[1], limit_unbounded(node[2], budget)]
    if k in ("alt", "seq"):
        return [k, [limit_unbounded(n, budget) for n in node[1]]]
    return node


@st.composite
def pattern_strategy(draw, max_depth=4):
    depth = draw(st.integers(0, max_depth))
    body = limit_unbounded(draw(node_strategy(depth)), [3])
    return {"body": body, "bol": draw(st.booleans()), "eol": draw(st.booleans())}


def _insert_unsup(draw, node, kind):
    """Embed ["unsup", kind] at a drawn position of the tree (sequence with the old sub-node)."""
    k = node[0]
    if k in ("alt", "seq") and draw(st.booleans()):
        i = draw(st.integers(0, len(node[1]) - 1))
        kids = list(node[1])
        kids[i] = _insert_unsup(draw, kids[i], kind)
        return [k, kids]
    if k == "grp" and draw(st.booleans()):
        return ["grp", node[1], _insert_unsup(draw, node[2], kind)]
    if k == "rep" and draw(st.booleans()) and node[2] not in ("*", "+") and not (
            isinstance(node[2], list) and (node[2][0] == "n," or node[2][-1] > 2)):
        return ["rep", _insert_unsup(draw, node[1], kind), node[2], node[3]]
    if draw(st.booleans()):
        return ["seq", [node, ["unsup", kind]]]
    return ["seq", [["unsup", kind], node]]


@st.composite
def unsupported_pattern_strategy(draw, max_depth=3):
    p = draw(pattern_strategy(max_depth))
    kind = draw(st.sampled_from(UNSUPPORTED))
    return {"body": _insert_unsup(draw, p["body"], kind), "bol": p["bol"], "eol": p["eol"],
            "unsup": kind}


# ---------------------------------------------------------------------------------------------
def _lit(ch):
    return re.escape(ch)


def _cls_item(it):
    k = it[0]
    if k == "c":
        return re.escape(it[1])
    if k == "r":
        return f"{re.escape(it[1])}-{re.escape(it[2])}"
    if k == "d":
        return r"\d"
    if k == "w":
        return r"\w"
    if k == "S":
        return it[1]
    raise ValueError(it)


class _R:
    def __init__(self):
        self.names = 0
        self.groups = 0


def _atomic(node):
    return node[0] in ("lit", "esc", "any", "d", "w", "cls", "grp") or (
        node[0] == "unsup" and node[1] in (r"\s", r"\S", r"\D", r"\W", r"[\s]", r"[^\D]", r"[\W]",
                                           "atomic"))


def _render(node, r):
    k = node[0]
    if k == "lit":
        return _lit(node[1])
    if k == "esc":
        return node[1]
    if k == "any":
        return "."
    if k == "d":
        return r"\d"
    if k == "w":
        return r"\w"
    if k == "cls":
        return "[" + ("^" if node[1] else "") + "".join(_cls_item(i) for i in node[2]) + "]"
    if k == "grp":
        if node[1] == "cap":
            r.groups += 1
            return "(" + _render(node[2], r) + ")"
        if node[1] == "named":
            r.names += 1
            r.groups += 1
            name = f"g{r.names}"
            return f"(?P<{name}>" + _render(node[2], r) + ")"
        return "(?:" + _render(node[2], r) + ")"
    if k == "alt":
        return "(?:" + "|".join(_render(n, r) for n in node[1]) + ")"
    if k == "seq":
        return "".join(_render(n, r) for n in node[1])
    if k == "rep":
        inner = _render(node[1], r)
        if not _atomic(node[1]):
            inner = "(?:" + inner + ")"
        q = node[2]
        if isinstance(q, str):
            qs = q
        elif q[0] == "n":
            qs = "{%d}" % q[1]
        elif q[0] == "n,":
            qs = "{%d,}" % q[1]
        else:
            qs = "{%d,%d}" % (q[1], q[2])
        return inner + qs + ("?" if node[3] else "")
    if k == "unsup":
        u = node[1]
        if u == "backref":
            r.groups += 1
            return r"(q)(?:\%d)" % r.groups      # (?:...) keeps a following digit out of the reference
        return UNSUP_TEXT.get(u, u)
    raise ValueError(node)


UNSUP_TEXT = {
    "lookahead": "(?=a)", "neg-lookahead": "(?!a)", "lookbehind": "(?<=a)",
    "neg-lookbehind": "(?<!a)", "atomic": "(?>ab?)", "possessive*": "a*+",
    "possessive+": "a++", "possessive?": "a?+",
}


def render(pattern):
    """pattern recipe -> regular expression text"""
    r = _R()
    body = _render(pattern["body"], r)
    if pattern.get("top_alt") and pattern["body"][0] == "alt":
        body = body[3:-1]
    return ("^" if pattern.get("bol") else "") + body + ("$" if pattern.get("eol") else "")


def nesting(node):
    k = node[0]
    if k == "grp":
        return 1 + nesting(node[2])
    if k == "rep":
        return 1 + nesting(node[1])
    if k in ("alt", "seq"):
        inner = max([nesting(n) for n in node[1]] + [0])
        return inner + (1 if k == "alt" else 0)
    if k == "cls":
        return 1
    return 0


def features(node, acc=None):
    acc = set() if acc is None else acc
    k = node[0]
    acc.add(k)
    if k == "cls":
        if node[1]:
            acc.add("negated-class")
        for it in node[2]:
            acc.add("cls-" + it[0])
    if k == "grp":
        acc.add("grp-" + node[1])
        features(node[2], acc)
    if k == "rep":
        q = node[2]
        acc.add("q-" + (q if isinstance(q, str) else q[0]))
        if isinstance(q, list) and q[0] == "n," and q[1] > 32:
            acc.add("open-ended-above-max-repeat")
        if node[3]:
            acc.add("lazy")
        features(node[1], acc)
    if k in ("alt", "seq"):
        for n in node[1]:
            features(n, acc)
    if k == "unsup":
        acc.add("unsup:" + node[1])
    return acc
