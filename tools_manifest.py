#!/venv/bin/python
"""Regenerates MANIFEST.json from the per-property modules (run: /venv/bin/python tools_manifest.py)."""
import importlib, json, os, sys
HERE = os.path.dirname(os.path.abspath(__file__))
sys.path.insert(0, HERE)
ALL = [f"C{n:02d}" for n in range(1, 20)]
checks, na = [], []
for pid in ALL:
    path = os.path.join(HERE, "pbt", "props", pid.lower() + ".py")
    if not os.path.exists(path):
        na.append({"property_id": pid, "reason": "check not built yet in this round (planned in DESIGN.md section 3; technique applies)"})
        continue
    src = open(path).read()
    ns = {}
    # pull the MANIFEST block without importing d42
    start = src.find("MANIFEST = ")
    if start < 0:
        raise SystemExit(f"{pid}: no MANIFEST block")
    end = src.find("\n}\n", start) + 3
    exec(src[start:end], ns)
    m = ns["MANIFEST"]
    checks.append({
        "property_id": pid,
        "quick_cmd": f"./check {pid} --tier quick",
        "thorough_cmd": f"./check {pid} --tier thorough",
        "evidence_file": f"/verif/evidence/{pid}.json",
        "replay_cmd_template": f"./check {pid} --replay {{path}}",
        "engine": m.get("engine", "hypothesis"),
        "level_claimed": {"category": m.get("category", "exploration"), "text": m["text"], "design_ref": m["design_ref"]},
        "level_note": m["note"],
        "technique": m["technique"],
    })
manifest = {
    "version": 1,
    "setup_cmd": "./setup.sh",
    "hooks": {
        "guard": "D42_VERIF",
        "enable": "no source hooks are needed: checks import /repo's working tree directly (PYTHONPATH) and replace the module-level name `random` in d42.generation._random at run time",
        "baseline_off_cmd": "cd /repo && /venv/bin/python -m pytest -q -p no:cacheprovider --timeout=900",
        "source_commits": [],
        "add_only": True,
    },
    "engines": [
        {"name": "hypothesis", "path": "pbt/runner.py", "serves_properties": [c["property_id"] for c in checks],
         "kind_free_text": "Hypothesis 6.168 generated-input search (recipes -> DSL), sharded over 16 processes, seeded by VERIF_SEED, failures shrunk to a replay file; exhaustive enumeration where the universe is finite (C08 node x zoo product, C10 chains <= 2, C11 base universe, C19 mapping table)"},
        {"name": "atheris", "path": "pbt/fuzz_c09.py, pbt/fuzz_c19.py, pbt/fuzz_hyp.py", "serves_properties": ["C02", "C03", "C06", "C09", "C12", "C13", "C15", "C19"],
         "kind_free_text": "thorough tier only: libFuzzer campaigns with the semantic oracle inside the target - raw regex text (C09), mutated Python modules (C19), and the Hypothesis strategy itself driven through fuzz_one_input with coverage feedback from d42 (C02 C03 C06 C12 C13 C15)"},
        {"name": "process pools", "path": "pbt/c17_worker.py, pbt/pristine.py", "serves_properties": ["C07", "C17"],
         "kind_free_text": "fresh interpreters with different PYTHONHASHSEED (C17) and a fork-per-request history-free evaluator (C07) used as differential oracles"},
    ],
    "checks": checks,
    "not_applicable": na,
    "notes": "All checks: ./check <ID> --tier quick|thorough; replay: ./check <ID> --replay <file>. Exit 2 = harness error (never a violation). Known findings: known-findings.txt.",
}
json.dump(manifest, open(os.path.join(HERE, "MANIFEST.json"), "w"), indent=1)
print("checks:", [c["property_id"] for c in checks], "n/a:", len(na))
