#!/venv/bin/python
"""Import and independently confirm a sub-agent's breaking change.

  tools_seeded_import.py <ID> <A|B> [extra check ids...]

Confirms, in a fresh scratch copy of /repo (not the agent's worktree): demo passes on the clean tree,
patch applies, the repository's full test suite passes with it, demo fails with it.  Then stores
/verif/seeded/<ID>-<X>/{patch.diff, demo.py, notes.md, meta.json} and runs our check(s) on it.
"""
import json, os, shutil, subprocess, sys, tempfile

HERE = os.path.dirname(os.path.abspath(__file__))
sys.path.insert(0, HERE)
import tools_mutants  # noqa


def sh(cmd, cwd, env=None):
    p = subprocess.run(cmd, cwd=cwd, env=env, capture_output=True, text=True)
    return p.returncode, (p.stdout + p.stderr)


def main():
    pid, x = sys.argv[1], sys.argv[2]
    extra = sys.argv[3:]
    src = os.path.join(os.environ.get("SEEDED_SRC", "/tmp/wt"), pid, "seeded", x)
    if not os.path.exists(os.path.join(src, "patch.diff")):
        print("no patch at", src)
        return 2
    scratch = tempfile.mkdtemp(prefix="d42seed-", dir="/var/tmp")
    meta = {"property": pid, "variant": x, "checks": [pid] + extra}
    try:
        for d in ("d42", "tests"):
            shutil.copytree(os.path.join("/repo", d), os.path.join(scratch, d))
        shutil.copy("/repo/setup.cfg", scratch)
        shutil.copy(os.path.join(src, "demo.py"), os.path.join(scratch, "demo_seeded.py"))
        env = dict(os.environ, PYTHONPATH=scratch, PYTHONDONTWRITEBYTECODE="1")
        rc0, out0 = sh(["/venv/bin/python", "-W", "ignore", "demo_seeded.py"], scratch, env)
        meta["demo_on_clean_tree_exit"] = rc0
        rc, out = sh(["patch", "-p1", "-s", "-i", os.path.join(src, "patch.diff")], scratch)
        meta["patch_applies"] = rc == 0
        if rc != 0:
            print("PATCH FAILED", out[-400:])
            return 1
        rct, outt = sh(["/venv/bin/python", "-m", "pytest", "-q", "-p", "no:cacheprovider", "tests"], scratch, env)
        meta["tests_with_change"] = outt.strip().splitlines()[-1] if outt.strip() else ""
        meta["tests_pass_with_change"] = rct == 0
        rc1, out1 = sh(["/venv/bin/python", "-W", "ignore", "demo_seeded.py"], scratch, env)
        meta["demo_with_change_exit"] = rc1
        meta["demo_with_change_tail"] = out1.strip().splitlines()[-3:]
    finally:
        shutil.rmtree(scratch, ignore_errors=True)
    ok = meta["demo_on_clean_tree_exit"] == 0 and meta["tests_pass_with_change"] and meta["demo_with_change_exit"] != 0
    meta["confirmed"] = ok
    print(json.dumps(meta, indent=1))
    if not ok:
        print("NOT CONFIRMED - not kept")
        return 1
    dst = os.path.join(HERE, "seeded", f"{pid}-{x}")
    os.makedirs(dst, exist_ok=True)
    for f in ("patch.diff", "demo.py", "notes.md"):
        if os.path.exists(os.path.join(src, f)):
            shutil.copy(os.path.join(src, f), dst)
    notes = open(os.path.join(dst, "notes.md")).read() if os.path.exists(os.path.join(dst, "notes.md")) else ""
    meta["needs_to_manifest"] = notes.strip()[:1500]
    meta["what_was_run"] = [
        "fresh copy of /repo (d42/, tests/) under /var/tmp; PYTHONPATH=<copy>",
        "python demo.py on the clean copy (must exit 0)", "patch -p1 < patch.diff",
        "python -m pytest -q tests (must pass)", "python demo.py (must exit non-zero)",
        "tools_mutants.py run seeded/<id>/patch.diff <checks> (our checks against the changed copy, regressions off)"]
    json.dump(meta, open(os.path.join(dst, "meta.json"), "w"), indent=1)
    r = tools_mutants.run_one(os.path.join(dst, "patch.diff"), meta["checks"], tests=False)
    meta["detected_by"] = {k: v for k, v in r["checks"].items()}
    json.dump(meta, open(os.path.join(dst, "meta.json"), "w"), indent=1)
    print(json.dumps(meta["detected_by"], indent=1))
    return 0


if __name__ == "__main__":
    sys.exit(main())
