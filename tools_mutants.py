#!/venv/bin/python
"""Sensitivity protocol (DESIGN.md section 6): apply a patch to a scratch copy of /repo/d42 and run checks on it.

  tools_mutants.py run <patch.diff> <ID>[,<ID>...] [--tests] [--tier quick] [--seed N]
  tools_mutants.py matrix [--tests] [--jobs N] all of mutants/*.diff and seeded/*/patch.diff (ids from meta)

Patch header line '# property: C01,C12' (mutants/) or seeded/<id>/meta.json names the target checks.
Nothing is written into /repo or /verif/evidence; the scratch copy is removed afterwards.
"""
import json, os, shutil, subprocess, sys, tempfile, time, glob

HERE = os.path.dirname(os.path.abspath(__file__))
REPO = os.environ.get("VERIF_REPO", "/repo")


def run_one(patch, ids, tests=False, tier="quick", seed="1"):
    scratch = tempfile.mkdtemp(prefix="d42mut-", dir=os.environ.get("TMPDIR", "/var/tmp"))
    res = {"patch": os.path.relpath(patch, HERE), "checks": {}, "applied": False}
    try:
        shutil.copytree(os.path.join(REPO, "d42"), os.path.join(scratch, "d42"))
        p = subprocess.run(["patch", "-p1", "-s", "-d", scratch, "-i", patch], capture_output=True, text=True)
        if p.returncode != 0:
            res["error"] = (p.stdout + p.stderr)[-500:]
            return res
        res["applied"] = True
        if tests:
            shutil.copytree(os.path.join(REPO, "tests"), os.path.join(scratch, "tests"))
            for f in ("setup.cfg",):
                if os.path.exists(os.path.join(REPO, f)):
                    shutil.copy(os.path.join(REPO, f), scratch)
            env = dict(os.environ, PYTHONPATH=scratch, PYTHONDONTWRITEBYTECODE="1")
            t = subprocess.run(["/venv/bin/python", "-m", "pytest", "-q", "-x", "-p", "no:cacheprovider", "tests"],
                               cwd=scratch, env=env, capture_output=True, text=True)
            res["tests_pass"] = t.returncode == 0
            res["tests_tail"] = t.stdout.strip().splitlines()[-1:] if t.stdout else []
        for pid in ids:
            env = dict(os.environ, VERIF_REPO=scratch, VERIF_OUT=os.path.join(scratch, "out"), VERIF_SEED=str(seed),
                       VERIF_NO_REGRESSIONS="1")   # the search itself must find it, not the saved replay
            t0 = time.time()
            c = subprocess.run([os.path.join(HERE, "check"), pid, "--tier", tier], env=env,
                               capture_output=True, text=True)
            lines = [l for l in c.stdout.splitlines() if not l.startswith("WARNING")]
            first = next((l for l in lines if l.startswith("violation[")), "")
            res["checks"][pid] = {"exit": c.returncode, "detected": c.returncode == 1,
                                  "wall_s": round(time.time() - t0, 1), "first": first[:300]}
    finally:
        shutil.rmtree(scratch, ignore_errors=True)
    return res


def targets_of(patch):
    d = os.path.dirname(patch)
    meta = os.path.join(d, "meta.json")
    if os.path.basename(patch) == "patch.diff" and os.path.exists(meta):
        m = json.load(open(meta))
        ids = m.get("checks") or [m["property"]]
        return ids if isinstance(ids, list) else [ids]
    for line in open(patch):
        if line.startswith("# property:"):
            return [x.strip() for x in line.split(":", 1)[1].split(",")]
    return []


def main():
    a = sys.argv[1:]
    tests = "--tests" in a
    tier = a[a.index("--tier") + 1] if "--tier" in a else "quick"
    seed = a[a.index("--seed") + 1] if "--seed" in a else "1"
    if a and a[0] == "run":
        r = run_one(os.path.abspath(a[1]), a[2].split(","), tests, tier, seed)
        print(json.dumps(r, indent=1))
        return 0 if any(c["detected"] for c in r["checks"].values()) else 1
    if a and a[0] == "matrix":
        patches = sorted(glob.glob(os.path.join(HERE, "mutants", "*.diff"))) + \
            sorted(glob.glob(os.path.join(HERE, "seeded", "*", "patch.diff")))
        rows = []
        from multiprocessing.pool import ThreadPool
        jobs = int(a[a.index("--jobs") + 1]) if "--jobs" in a else 5
        for r in ThreadPool(jobs).imap(lambda p: run_one(p, targets_of(p), tests, tier, seed), patches):
            rows.append(r)
            det = {k: ("KILLED" if v["detected"] else f"missed(exit {v['exit']})") for k, v in r["checks"].items()}
            print(f"{r['patch']:60s} tests_pass={r.get('tests_pass')} {det}" + ("" if r["applied"] else "  PATCH FAILED " + r.get("error", "")), flush=True)
        json.dump(rows, open(os.path.join(HERE, "mutants", "matrix.json"), "w"), indent=1)
        return 0
    print(__doc__)
    return 2


if __name__ == "__main__":
    sys.exit(main())
