#!/bin/bash
# Offline setup: make sure hypothesis (and, for the thorough tier, atheris) are importable.
cd "$(dirname "$0")" || exit 1
PY=/venv/bin/python
if ! $PY -c "import hypothesis" 2>/dev/null; then
  /venv/bin/pip install --no-index --find-links /opt/veriftools/wheels hypothesis >/dev/null 2>&1 \
    || /venv/bin/pip install --no-index --find-links /opt/veriftools/wheels --target "$PWD/.deps" hypothesis || exit 1
fi
if ! PYTHONPATH="$PWD/.deps" $PY -c "import atheris" 2>/dev/null; then
  /venv/bin/pip install --no-index --find-links /opt/veriftools/wheels --target "$PWD/.deps" atheris >/dev/null 2>&1 \
    || echo "note: atheris not installable; thorough tiers fall back to hypothesis only"
fi
$PY -c "import hypothesis; print('hypothesis', hypothesis.__version__)"
exit 0
