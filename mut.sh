#!/bin/bash
# usage: mut.sh <seeded-or-mutant-name>:<ID>[:seed] ...   (concise sensitivity runs, in parallel)
cd "$(dirname "$0")"
for m in "$@"; do
  IFS=: read p id seed <<<"$m"
  f=seeded/$p/patch.diff; [ -f "$f" ] || f=mutants/$p.diff
  ( ./tools_mutants.py run $f $id --seed ${seed:-1} 2>&1 | grep -v WARN | python3 -c "
import sys,json
d=json.load(sys.stdin)
for k,v in d['checks'].items(): print('$p', k, 'seed=${seed:-1}', 'DETECTED' if v['detected'] else 'missed', 'exit=%s'%v['exit'], v['first'][:160])" ) &
done
wait
