#!/bin/bash
# ./run_all.sh [quick|thorough]  - run every registered check once, validate evidence files
cd "$(dirname "$0")"
tier="${1:-quick}"
rc=0
for n in $(seq -w 1 19); do
  id="C$n"
  rm -f "evidence/$id.json"
  out=$(./check "$id" --tier "$tier" 2>&1 | grep -v "^WARNING")
  code=${PIPESTATUS[0]}
  echo "$out" | grep -E "^(VIOLATION|HARNESS-ERROR|C[0-9]+ tier)" | cut -c1-300
  if echo "$out" | grep -q "^VIOLATION\|^HARNESS-ERROR"; then rc=1; fi
  [ -f "evidence/$id.json" ] || { echo "MISSING evidence/$id.json"; rc=1; }
done
/opt/veriftools/pyvenv/bin/python - <<'PY'
import json, jsonschema, glob
sch = json.load(open('/root/.vp/EVIDENCE.schema.json'))
for f in sorted(glob.glob('evidence/C*.json')):
    try:
        jsonschema.validate(json.load(open(f)), sch)
    except Exception as e:
        print("INVALID", f, str(e)[:200])
print("evidence files validated")
PY
exit $rc
