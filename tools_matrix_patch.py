#!/venv/bin/python
"""Re-run some rows of mutants/matrix.json (after a check was strengthened) and merge the results.
   tools_matrix_patch.py seeded/C06-I seeded/C10-L mutants/own-x ..."""
import json, os, sys
sys.path.insert(0, os.path.dirname(os.path.abspath(__file__)))
import tools_mutants as tm
HERE = tm.HERE
rows = json.load(open(os.path.join(HERE, "mutants", "matrix.json")))
by = {r["patch"]: i for i, r in enumerate(rows)}
from multiprocessing.pool import ThreadPool
names = []
for a in sys.argv[1:]:
    p = os.path.join(HERE, a, "patch.diff") if os.path.isdir(os.path.join(HERE, a)) else os.path.join(HERE, a if a.endswith(".diff") else a + ".diff")
    names.append(p)
for r in ThreadPool(6).imap(lambda p: tm.run_one(p, tm.targets_of(p), True, "quick", "1"), names):
    if r["patch"] in by:
        rows[by[r["patch"]]] = r
    else:
        rows.append(r)
    print(r["patch"], {k: v["detected"] for k, v in r["checks"].items()})
rows.sort(key=lambda r: (not r["patch"].startswith("mutants/"), r["patch"]))
json.dump(rows, open(os.path.join(HERE, "mutants", "matrix.json"), "w"), indent=1)
