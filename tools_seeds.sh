#!/bin/bash
# ./tools_seeds.sh "2 3 4" [quick]  - run every check under several seeds; print anything that is not a clean pass
cd "$(dirname "$0")"
for s in $1; do
  for n in $(seq -w 1 19); do
    out=$(VERIF_SEED=$s ./check "C$n" --tier "${2:-quick}" 2>&1 | grep -v "^WARNING")
    if echo "$out" | grep -q "^VIOLATION\|^HARNESS-ERROR\|Traceback"; then
      echo "=== seed $s C$n"; echo "$out" | cut -c1-1500 | head -30
    fi
  done
  echo "seed $s done"
done
